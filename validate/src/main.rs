#[path = "../../spec/format.rs"]
mod spec;
use std::io::{Read, Seek, SeekFrom, Write};

struct Rng(u64);
impl Rng {
    fn next(&mut self) -> u64 {
        let mut x = self.0;
        x ^= x >> 12;
        x ^= x << 25;
        x ^= x >> 27;
        self.0 = x;
        x.wrapping_mul(0x2545F4914F6CDD1D)
    }
}

/// the byte model and the real rabuf agree on every observable of a seeded operation script
fn validate_models(seed: u64) -> bool {
    use model_rabuf::{FileSetLen as MSetLen, SmallRead as MR, SmallWrite as MW};
    use real_rabuf::{FileSetLen as RSetLen, SmallRead as RR, SmallWrite as RW};
    let path = format!("/tmp/verif-validate-{}-{}.bin", std::process::id(), seed);
    let _ = std::fs::remove_file(&path);
    let file = std::fs::OpenOptions::new().read(true).write(true).create(true).truncate(true).open(&path).unwrap();
    let mut real = real_rabuf::BufFile::with_capacity("v", file, 4096, 4).unwrap();
    let mut model = model_rabuf::BufFile::from_image(vec![0u8; 1 << 20], 0);
    let mut r = Rng(seed | 1);
    let mut ok = true;
    for step in 0..4000 {
        let op = r.next() % 12;
        let pos = r.next() % 70000;
        if std::env::var("VTRACE").is_ok() && step < 40 { println!("step {step} op {op} pos-arg {pos} | real pos {} model pos {} model end {}", real.stream_position().unwrap(), model.pos, model.end); }
        macro_rules! same {
            ($a:expr, $b:expr, $what:expr) => {{
                let (a, b) = ($a, $b);
                if a != b {
                    println!("models differ at step {step} ({}): real {:?} model {:?}", $what, a, b);
                    ok = false;
                }
            }};
        }
        // domain of the model: a read may run past the end of the file only inside the chunk that
        // holds the end (rabuf zero-fills that chunk; beyond it the real buffer fails)
        let rn: u64 = match op { 2 => 1, 3 | 11 => 8, 8 => 40, 9 => 8, _ => 0 };
        if rn > 0 && model.pos + rn > model.end && (model.pos > model.end || (model.pos + rn - 1) / 4096 != model.end / 4096 || model.end % 4096 == 0) {
            continue;
        }
        match op {
            0 => same!(real.seek(SeekFrom::Start(pos)).unwrap(), model.seek(SeekFrom::Start(pos)).unwrap(), "seek start (may extend)"),
            1 => same!(real.seek(SeekFrom::End(0)).unwrap(), model.seek(SeekFrom::End(0)).unwrap(), "seek end"),
            2 => same!(RR::read_u8(&mut real).unwrap(), MR::read_u8(&mut model).unwrap(), "read_u8"),
            3 => same!(RR::read_u64_le(&mut real).unwrap(), MR::read_u64_le(&mut model).unwrap(), "read_u64_le"),
            4 => {
                let v = r.next() as u8;
                RW::write_u8(&mut real, v).unwrap();
                MW::write_u8(&mut model, v).unwrap();
            }
            5 => {
                let v = r.next();
                RW::write_u64_le(&mut real, v).unwrap();
                MW::write_u64_le(&mut model, v).unwrap();
            }
            6 => {
                let n = (r.next() % 300) as u32;
                RW::write_zero(&mut real, n).unwrap();
                MW::write_zero(&mut model, n).unwrap();
            }
            7 => {
                let n = (r.next() % 40) as usize;
                let buf: Vec<u8> = (0..n).map(|_| r.next() as u8).collect();
                RW::write_all_small(&mut real, &buf).unwrap();
                MW::write_all_small(&mut model, &buf).unwrap();
            }
            8 => {
                let n = (r.next() % 40) as usize;
                let a = RR::read_exact_maybeslice(&mut real, n).unwrap().to_vec();
                let b = MR::read_exact_maybeslice(&mut model, n).unwrap().to_vec();
                same!(a, b, "read_exact_maybeslice");
            }
            9 => {
                let n = (r.next() % 9) as usize;
                if n >= 3 {
                    same!(RR::read_max_8_bytes(&mut real, n.min(8)).unwrap(), MR::read_max_8_bytes(&mut model, n.min(8)).unwrap(), "read_max_8_bytes");
                }
            }
            10 => {
                // only extension: after a truncation the real buffer keeps stale bytes of the cut-off
                // tail in its chunk (visible again when the file regrows); the crate truncates only
                // on the error-recovery path of write_piece, which is outside every claim
                if r.next() % 8 == 0 && pos >= model.end {
                    RSetLen::set_len(&mut real, pos).unwrap();
                    MSetLen::set_len(&mut model, pos).unwrap();
                }
            }
            _ => {
                let mut a = [0u8; 8];
                let mut b = [0u8; 8];
                real.read_exact(&mut a).unwrap();
                model.read_exact(&mut b).unwrap();
                same!(a, b, "read_exact");
            }
        }
        same!(real.stream_position().unwrap(), model.stream_position().unwrap(), "position (stream_position = seek(Current(0)): extends the file when the position is beyond its end)");
        if !ok {
            break;
        }
    }
    real.flush().unwrap();
    let end_r = real.seek(SeekFrom::End(0)).unwrap();
    if end_r != model.end {
        println!("file length differs: real {end_r} model {}", model.end);
        ok = false;
    }
    drop(real);
    let bytes = std::fs::read(&path).unwrap();
    if ok && bytes != model.data[..model.end as usize] {
        println!("file content after flush differs from the model");
        ok = false;
    }
    let _ = std::fs::remove_file(&path);
    ok
}

fn rd_vu64(b: &[u8], p: &mut usize) -> u64 {
    let (v, l) = spec::vu64_decode(&b[*p..]).unwrap();
    *p += l;
    v
}
/// files written by the real crate decode, by the frozen spec alone, to exactly what was put
fn validate_spec(seed: u64) -> bool {
    use abyssiniandb::filedb::{FileDbParams, HashBucketsParam};
    use abyssiniandb::{DbXxx, DbXxxBase};
    let dir = format!("/tmp/verif-validate-spec-{}-{}", std::process::id(), seed);
    let _ = std::fs::remove_dir_all(&dir);
    let n = 64u64;
    let mut r = Rng(seed | 1);
    let mut model: std::collections::BTreeMap<Vec<u8>, Vec<u8>> = Default::default();
    {
        let db = abyssiniandb::open_file(&dir).unwrap();
        let mut m = db.db_map_bytes_with_params("m", FileDbParams { buckets_size: HashBucketsParam::BucketsSize(n), ..Default::default() }).unwrap();
        for _ in 0..1500 {
            let kl = 1 + (r.next() % 20) as usize;
            let k: Vec<u8> = (0..kl).map(|_| b'a' + (r.next() % 4) as u8).collect();
            if r.next() % 4 == 0 {
                m.delete(k.as_slice()).unwrap();
                model.remove(&k);
            } else {
                let vl = match r.next() % 6 {
                    0 => 0,
                    1 => 900 + (r.next() % 600) as usize,
                    _ => (r.next() % 60) as usize,
                };
                let v: Vec<u8> = (0..vl).map(|_| r.next() as u8).collect();
                m.put(k.as_slice(), &v).unwrap();
                model.insert(k, v);
            }
        }
        m.flush().unwrap();
    }
    let htx = std::fs::read(format!("{dir}/m.htx")).unwrap();
    let key = std::fs::read(format!("{dir}/m.key")).unwrap();
    let val = std::fs::read(format!("{dir}/m.val")).unwrap();
    let mut ok = true;
    let mut chk = |c: bool, what: &str| {
        if !c {
            println!("spec validation: {what}");
            ok = false;
        }
    };
    chk(htx[..8] == spec::SIG_HTX && key[..8] == spec::SIG_KEY && val[..8] == spec::SIG_VAL, "format signatures");
    chk(htx[8..16] == spec::TSIG_BYTES && key[8..16] == spec::TSIG_BYTES && val[8..16] == spec::TSIG_BYTES, "type signatures");
    chk(u64::from_le_bytes(htx[16..24].try_into().unwrap()) == n, "stored bucket count");
    chk(u64::from_le_bytes(htx[24..32].try_into().unwrap()) == model.len() as u64, "stored item count");
    chk(htx.len() as u64 == spec::htx_file_len(n), "table file length");
    let mut found: std::collections::BTreeMap<Vec<u8>, Vec<u8>> = Default::default();
    for b in 0..n {
        let hp = spec::htx_bucket_pos(b) as usize;
        let mut cur = u64::from_le_bytes(htx[hp..hp + 8].try_into().unwrap());
        let bit = htx[spec::htx_bitmap_pos(n, b) as usize] >> (b % 8) & 1;
        chk((bit == 1) == (cur != 0), "occupancy bit <=> bucket non-empty");
        let mut steps = 0;
        while cur != 0 && steps < 100000 {
            let mut p = cur as usize;
            let slot = rd_vu64(&key, &mut p) * 8;
            let kl = rd_vu64(&key, &mut p) as usize;
            let k = key[p..p + kl].to_vec();
            p += kl;
            let voff = rd_vu64(&key, &mut p) * 8;
            let next = rd_vu64(&key, &mut p) * 8;
            chk(spec::is_slot_size(slot as u32), "key slot size is a documented class");
            chk(p as u64 <= cur + slot, "key record inside its slot");
            chk(key[p..(cur + slot) as usize].iter().all(|&x| x == 0), "key record zero-padded");
            chk(spec::bucket_of(&k, n) == b, "key sits in the bucket of its released hash");
            let mut q = voff as usize;
            let vslot = rd_vu64(&val, &mut q) * 8;
            let vl = rd_vu64(&val, &mut q) as usize;
            chk(q as u64 + vl as u64 <= voff + vslot, "value record inside its slot");
            chk(val[q + vl..(voff + vslot) as usize].iter().all(|&x| x == 0), "value record zero-padded");
            chk(found.insert(k, val[q..q + vl].to_vec()).is_none(), "key stored once");
            cur = next;
            steps += 1;
        }
    }
    chk(found == model, "decoded contents equal what was put");
    // slots tile both record files; free slots sit on the list of their class
    for (name, data, head0) in [("key", &key, spec::KEY_FREE_HEAD0), ("value", &val, spec::VAL_FREE_HEAD0)] {
        let mut p = spec::DAT_HEADER_SZ as usize;
        let mut nfree = 0;
        while p < data.len() {
            let mut q = p;
            let slot = rd_vu64(data, &mut q) * 8;
            chk(slot >= 16 && spec::is_slot_size(slot as u32), &format!("{name} file: slot size at {p}"));
            if slot == 0 {
                break;
            }
            p += slot as usize;
        }
        chk(p == data.len(), &format!("{name} file: slots tile the file"));
        for l in 0..16 {
            let hp = (head0 + 8 * l) as usize;
            let mut cur = u64::from_le_bytes(data[hp..hp + 8].try_into().unwrap());
            while cur != 0 && nfree < 100000 {
                let mut q = cur as usize;
                let slot = rd_vu64(data, &mut q) * 8;
                chk(spec::list_of(slot as u32) == l as usize, &format!("{name} file: free slot on the list of its class"));
                chk(data[q] == 0, "free record has a zero length byte");
                cur = u64::from_le_bytes(data[q + 1..q + 9].try_into().unwrap());
                nfree += 1;
            }
        }
    }
    let _ = std::fs::remove_dir_all(&dir);
    ok
}

fn main() {
    let a: Vec<String> = std::env::args().collect();
    let what = a.get(1).map(|s| s.as_str()).unwrap_or("all");
    let seeds: u64 = a.get(2).and_then(|s| s.parse().ok()).unwrap_or(8);
    let mut ok = true;
    for s in 1..=seeds {
        if what == "models" || what == "all" {
            ok &= validate_models(s);
        }
        if what == "spec" || what == "all" {
            ok &= validate_spec(s);
        }
    }
    println!("validate {what}: {}", if ok { "ok" } else { "FAILED" });
    std::process::exit(if ok { 0 } else { 1 });
}
