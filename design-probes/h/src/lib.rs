extern crate alloc;
#[cfg(kani)]
mod proofs {
    use abyssiniandb::filedb::verif::{self, val, ValuePiece, ValuePieceOffset};
    use rabuf::BufFile;
    pub fn ok<T>(r: std::io::Result<T>) -> T { match r { Ok(v) => v, Err(e) => { core::mem::forget(e); panic!("io error") } } }
    pub fn fmt_stub(_a: std::fmt::Arguments<'_>) -> String { String::new() }
    pub fn dbg_stub(_e: &std::io::Error, _f: &mut std::fmt::Formatter<'_>) -> std::fmt::Result { Ok(()) }
    pub fn enc_len_stub(v: u64) -> u8 {
        if v < (1 << 7) { 1 } else if v < (1 << 14) { 2 } else if v < (1 << 21) { 3 } else if v < (1 << 28) { 4 }
        else if v < (1 << 35) { 5 } else if v < (1 << 42) { 6 } else if v < (1 << 49) { 7 } else if v < (1 << 56) { 8 } else { 9 }
    }
    fn le64(img: &[u8], p: usize) -> u64 { let mut a = [0u8; 8]; let mut i = 0; while i < 8 { a[i] = img[p + i]; i += 1; } u64::from_le_bytes(a) }

    fn shape<const L0: usize, const L1: usize>() {
        const CAP: usize = 272;
        let mut img = vec![0u8; CAP];
        let sig = *b"abysdbV\0"; let mut i = 0; while i < 8 { img[i] = sig[i]; i += 1; }
        img[40] = 208;                       // free list head of class 24 -> slot at 208
        img[192] = 2; img[193] = L0 as u8;   // used slot @192: size 16, len L0
        let p0: [u8; L0] = kani::any();
        let mut i = 0; while i < L0 { img[194 + i] = p0[i]; i += 1; }
        // stale garbage in the padding of the free slot must not matter
        img[208] = 3;
        let junk: [u8; 14] = kani::any();
        let mut i = 0; while i < 14 { img[218 + i] = junk[i]; i += 1; }
        let vf = val::val_file(val::var_file(BufFile::from_image(img, 232)));
        let nv: [u8; L1] = kani::any();
        let mut v: Vec<u8> = Vec::with_capacity(L1);
        let mut i = 0; while i < L1 { v.push(nv[i]); i += 1; }
        let piece = ValuePiece { offset: ValuePieceOffset::new(192), size: Default::default(), value: v };
        let out = ok(vf.write_piece(piece));
        let off = out.offset.as_value();
        let back = ok(vf.read_piece_only_value(out.offset));
        assert!(back.len() == L1);
        let mut i = 0; while i < L1 { assert!(back[i] == nv[i]); i += 1; }
        val::with_var_file(&vf, |f| {
            let b = f.verif_buf();
            assert!(b.end == 232);
            let h16 = le64(&b.data, 32); let h24 = le64(&b.data, 40);
            if L1 <= 14 { assert!(off == 192 && h16 == 0 && h24 == 208); }
            else {
                assert!(off == 208 && h16 == 192 && h24 == 0);
                // documented layout of the new record, byte for byte: size/8, len, payload, zero padding
                assert!(b.data[208] == 3 && b.data[209] == L1 as u8);
                let mut i = 210 + L1; while i < 232 { assert!(b.data[i] == 0); i += 1; }
                // freed slot: size, len 0, next = old head (0), zero padding
                assert!(b.data[192] == 2 && b.data[193] == 0 && le64(&b.data, 194) == 0);
                assert!(b.data[202] == 0 && b.data[207] == 0);
            }
        });
        core::mem::forget(vf);
    }

    #[kani::proof]
    #[kani::unwind(40)]
    #[kani::stub(vu64::encoded_len, enc_len_stub)]
    #[kani::stub(alloc::fmt::format, fmt_stub)]
    #[kani::stub(<std::io::Error as std::fmt::Debug>::fmt, dbg_stub)]
    fn shape_5_18() { shape::<5, 18>() }

    #[kani::proof]
    #[kani::unwind(40)]
    #[kani::stub(vu64::encoded_len, enc_len_stub)]
    #[kani::stub(alloc::fmt::format, fmt_stub)]
    #[kani::stub(<std::io::Error as std::fmt::Debug>::fmt, dbg_stub)]
    fn shape_14_15() { shape::<14, 15>() }
}
