#![allow(dead_code, unused_imports, unused_variables)]
pub use abyssiniandb::{DbMapKeyType, HashValue};
pub mod filedb {
    pub use abyssiniandb::filedb::{FileBufSizeParam, FileDbParams, HashBucketsParam};
    pub mod inner {
        #[path = "/tmp/probe/repo/src/filedb/inner/semtype.rs"]
        pub mod semtype;
        #[path = "/tmp/probe/r/src/vfile_model.rs"]
        pub mod vfile;
        #[path = "/tmp/probe/repo/src/filedb/inner/piece.rs"]
        pub mod piece;
        #[path = "/tmp/probe/repo/src/filedb/inner/val.rs"]
        pub mod val;
    }
}

#[cfg(kani)]
mod proofs {
    use crate::filedb::inner::semtype::*;
    use crate::filedb::inner::val::verif_probe as vp;
    use crate::filedb::inner::val::ValuePiece;
    use crate::filedb::inner::vfile::*;

    pub fn ok<T>(r: std::io::Result<T>) -> T { match r { Ok(v) => v, Err(e) => { core::mem::forget(e); panic!("io error") } } }
    const CLASSES: [u32; 4] = [16, 24, 1024, 1152];
    fn any_class() -> u32 { let i: usize = kani::any(); kani::assume(i < 4); CLASSES[i] }
    fn head_word(sz: u32) -> usize { if sz == 16 { 4 } else if sz == 24 { 5 } else { 4 + 15 } }
    fn enc(v: u64) -> u64 { vu64::encoded_len(v) as u64 }

    fn used(off: u64, size: u32, len: u32, b: [u8; BMAX]) -> Slot {
        let s = Slot { live: true, off, nf: 4, size: (size / 8) as u64, size_w: enc((size / 8) as u64), len: len as u64, len_w: enc(len as u64), body: 1, blen: len as u64, bytes: b, link: 0, zero_to: off + size as u64 };
        kani::assume(s.p3() <= s.zero_to);
        s
    }
    fn free(off: u64, size: u32, next: u64) -> Slot {
        Slot { live: true, off, nf: 4, size: (size / 8) as u64, size_w: enc((size / 8) as u64), len: 0, len_w: 1, body: 2, blen: 0, bytes: [0; BMAX], link: next, zero_to: off + size as u64 }
    }

    #[kani::proof]
    #[kani::unwind(5)]
    fn val_rewrite_tiling() {
        let mut f = VarFile::model(vp::piece_mgr());
        let sa = any_class(); let sb = any_class();
        let la: u32 = kani::any(); kani::assume(la <= 1140);
        let ba: [u8; BMAX] = kani::any();
        f.slots[0] = used(192, sa, la, ba);
        let e1 = 192 + sa as u64;
        f.slots[1] = free(e1, sb, 0);
        f.hdr[head_word(sb)] = e1;
        let e2 = e1 + sb as u64;
        f.end = e2;
        // rewrite A with a value of symbolic length; payload prefix tracked, rest abstracted
        let l1: usize = kani::any(); kani::assume(l1 <= 1140);
        let pre: [u8; BMAX] = kani::any();
        let mut v: Vec<u8> = Vec::with_capacity(BMAX);
        v.push(pre[0]); v.push(pre[1]); v.push(pre[2]);
        if l1 < BMAX { v.truncate(l1); }
        let tracked = v.len();
        // the model only looks at len() and the first BMAX bytes, so hand it the real length
        let v: Vec<u8> = unsafe { let mut v = core::mem::ManuallyDrop::new(v); Vec::from_raw_parts(v.as_mut_ptr(), l1, if l1 > BMAX { l1 } else { BMAX }) };
        let vf = vp::val_file(f);
        let piece = ValuePiece { offset: ValuePieceOffset::new(192), size: Default::default(), value: v };
        let out = ok(vf.write_piece(piece));
        core::mem::forget(out.value);
        let off = out.offset.as_value();
        vp::with_var_file(&vf, |f| {
            assert!(f.garbage_reads == 0, "read of undefined bytes");
            assert!(f.unstructured == 0, "unstructured access");
            assert!(f.extended_by_seek == 0);
            // I1: every slot is header-consistent and the slots tile [192, end)
            let mut total = 0u64; let mut i = 0;
            while i < NS {
                let s = f.slots[i];
                if s.live {
                    assert!(s.nf == 4, "slot not completely written");
                    assert!(s.zero_to == s.off + s.size * 8, "record does not end at its slot end");
                    assert!(s.cursor_pub() <= s.zero_to, "record overflows its slot");
                    total += s.size * 8;
                }
                i += 1;
            }
            assert!(192 + total == f.end, "slots do not tile the file");
            // extend only if no suitable free slot existed
            let probe = core::mem::ManuallyDrop::new(ValuePiece { offset: Default::default(), size: Default::default(), value: unsafe { Vec::from_raw_parts(core::ptr::NonNull::<u8>::dangling().as_ptr(), l1, l1) } });
            let need = vp::slot_size(&probe).2;
            if need <= sa { assert!(off == 192 && f.end == e2); }
            else if (need < 1024 && sb == need) || (need >= 1024 && sb >= need) { assert!(off == e1 && f.end == e2, "free slot not reused"); }
            else { assert!(off == e2, "new record not at end of file"); }
        });
        kani::cover!(off == 192, "in place");
        kani::cover!(off == e1, "reused free slot");
        kani::cover!(off == e2, "appended");
        core::mem::forget(vf);
    }
}
