//! Slot-structured model of `vfile::VarFile`.
use super::piece::PieceMgr;
use super::semtype::*;
use rabuf::MaybeSlice;
use std::fs::File;
use std::io::{Read, Result, Write};

pub const NS: usize = 3;
pub const NH: usize = 24;
pub const BMAX: usize = 3;

/// a slot = the sequence of typed fields last written into it
#[derive(Clone, Copy, Debug)]
pub struct Slot {
    pub live: bool,
    pub off: u64,
    pub nf: u8,                 // fields written so far: 0 none,1 Size,2 +Len,3 +body,4 zero-filled
    pub size: u64, pub size_w: u64,
    pub len: u64, pub len_w: u64,
    pub body: u8,               // 0 none, 1 Bytes, 2 U64 link
    pub blen: u64, pub bytes: [u8; BMAX], pub link: u64,
    pub zero_to: u64,           // absolute end of zero padding (0 = none)
}
pub const NOSLOT: Slot = Slot { live: false, off: 0, nf: 0, size: 0, size_w: 0, len: 0, len_w: 0, body: 0, blen: 0, bytes: [0; BMAX], link: 0, zero_to: 0 };

impl Slot {
    pub fn p1(&self) -> u64 { self.off + self.size_w }
    pub fn p2(&self) -> u64 { self.p1() + self.len_w }
    pub fn p3(&self) -> u64 { self.p2() + if self.body == 1 { self.blen } else if self.body == 2 { 8 } else { 0 } }
    /// position where the next sequential field goes
    pub fn cursor(&self) -> u64 { match self.nf { 0 => self.off, 1 => self.p1(), 2 => self.p2(), 3 => self.p3(), _ => self.zero_to } }
}

#[derive(Debug)]
pub struct VarFile {
    pub(crate) piece_mgr: PieceMgr,
    pub hdr: [u64; NH],
    pub slots: [Slot; NS],
    pub pos: u64,
    pub end: u64,
    pub garbage_reads: u32,
    pub unstructured: u32,
    pub extended_by_seek: u32,
    pub writes: u32,
    pub flushes: u32,
}

fn vw(v: u64) -> u64 { vu64::encoded_len(v) as u64 }
#[derive(Clone, Copy, PartialEq, Eq)]
enum K { Size, Len, Link, Bytes }

impl VarFile {
    pub fn model(piece_mgr: PieceMgr) -> Self {
        Self { piece_mgr, hdr: [0; NH], slots: [NOSLOT; NS], pos: 0, end: 192, garbage_reads: 0, unstructured: 0, extended_by_seek: 0, writes: 0, flushes: 0 }
    }
    pub fn verif_from_buf(piece_mgr: PieceMgr, _b: rabuf::BufFile) -> VarFile { Self::model(piece_mgr) }
    pub fn new(_p: PieceMgr, _n: &str, _f: File) -> Result<VarFile> { unimplemented!() }
    pub fn with_capacity(_p: PieceMgr, _n: &str, _f: File, _c: u32, _m: u16) -> Result<VarFile> { unimplemented!() }
    pub fn with_per_mille(_p: PieceMgr, _n: &str, _f: File, _c: u32, _m: u16) -> Result<VarFile> { unimplemented!() }
    pub fn sync_all(&mut self) -> Result<()> { self.flushes += 1; Ok(()) }
    pub fn sync_data(&mut self) -> Result<()> { self.flushes += 1; Ok(()) }
    pub fn read_fill_buffer(&mut self) -> Result<()> { Ok(()) }

    fn garbage(&mut self) -> (u64, u64) {
        self.garbage_reads += 1;
        #[cfg(kani)]
        { let v: u64 = kani::any(); let w: u64 = kani::any(); kani::assume(w >= 1 && w <= 9); (v, w) }
        #[cfg(not(kani))]
        { (0, 1) }
    }
    /// read field `k` at the current position
    fn rd(&mut self, k: K) -> u64 {
        let p = self.pos;
        let mut hit: Option<(u64, u64)> = None;
        let mut i = 0;
        while i < NS {
            let s = self.slots[i];
            if s.live {
                if k == K::Size && s.nf >= 1 && p == s.off { hit = Some((s.size, s.size_w)); }
                else if k == K::Len && s.nf >= 2 && p == s.p1() { hit = Some((s.len, s.len_w)); }
                else if k == K::Link && s.nf >= 3 && s.body == 2 && p == s.p2() { hit = Some((s.link, 8)); }
                else if s.nf >= 4 && s.cursor_before_zero() <= p && p < s.zero_to {
                    // inside explicit zero padding
                    if k == K::Link { if p + 8 <= s.zero_to { hit = Some((0, 8)); } } else { hit = Some((0, 1)); }
                }
            }
            i += 1;
        }
        let (v, w) = match hit { Some(x) => x, None => self.garbage() };
        self.pos = p + w;
        v
    }
    /// write field `k` at the current position
    fn wr(&mut self, k: K, val: u64, w: u64, bytes: [u8; BMAX]) {
        self.writes += 1;
        let p = self.pos;
        let mut done = false;
        let mut i = 0;
        while i < NS {
            let s = &mut self.slots[i];
            if s.live && !done {
                if p == s.off {
                    // a rewrite starts at the first byte of a slot: everything after it is stale
                    if k == K::Size { s.nf = 1; s.size = val; s.size_w = w; s.body = 0; s.zero_to = 0; done = true; }
                } else if s.nf == 1 && p == s.p1() && k == K::Len { s.nf = 2; s.len = val; s.len_w = w; done = true; }
                else if s.nf == 2 && p == s.p2() && k == K::Bytes { s.nf = 3; s.body = 1; s.blen = w; s.bytes = bytes; done = true; }
                else if s.nf == 2 && p == s.p2() && k == K::Link { s.nf = 3; s.body = 2; s.link = val; done = true; }
                else if s.nf >= 3 && s.body == 2 && p == s.p2() && k == K::Link { s.link = val; done = true; } // patch the link in place
            }
            i += 1;
        }
        if !done && p == self.end && k == K::Size {
            // append a new slot at end of file
            let mut j = 0; let mut placed = false;
            while j < NS { if !self.slots[j].live && !placed { self.slots[j] = Slot { live: true, off: p, nf: 1, size: val, size_w: w, ..NOSLOT }; placed = true; } j += 1; }
            #[cfg(kani)] kani::assume(placed);
            done = true;
        }
        if !done { self.unstructured += 1; }
        self.pos = p + w;
        if self.end < self.pos { self.end = self.pos; }
    }

    pub fn seek_from_start<T: PartialEq + Copy>(&mut self, offset: Offset<T>) -> Result<Offset<T>> {
        let o = offset.as_value();
        if o > self.end { self.extended_by_seek += 1; self.end = o; }
        self.pos = o;
        Ok(offset)
    }
    pub fn seek_skip_length<T: PartialEq + Copy>(&mut self, length: Length<T>) -> Result<Offset<T>> { self.pos += length.as_value() as u64; Ok(Offset::new(self.pos)) }
    pub fn seek_back_size<T: PartialEq + Copy>(&mut self, size: Size<T>) -> Result<Offset<T>> { self.pos -= size.as_value() as u64; Ok(Offset::new(self.pos)) }
    pub fn seek_to_end<T>(&mut self) -> Result<Offset<T>> { self.pos = self.end; Ok(Offset::new(self.pos)) }
    pub fn seek_position<T>(&mut self) -> Result<Offset<T>> { Ok(Offset::new(self.pos)) }
    pub fn set_file_length<T>(&mut self, file_length: Offset<T>) -> Result<()> {
        let n = file_length.as_value();
        let mut i = 0; while i < NS { if self.slots[i].live && self.slots[i].off >= n { self.slots[i].live = false; } i += 1; }
        self.end = n; if self.pos > n { self.pos = n; }
        Ok(())
    }
    pub fn write_zero_to_offset<T: PartialOrd>(&mut self, offset: Offset<T>) -> Result<()> {
        let o = offset.as_value();
        let p = self.pos;
        if o > p {
            self.writes += 1;
            let mut done = false; let mut i = 0;
            while i < NS {
                let s = &mut self.slots[i];
                if s.live && !done && s.nf >= 1 && s.nf <= 3 && p == s.cursor() { s.nf = 4; s.zero_to = o; done = true; }
                i += 1;
            }
            if !done { self.unstructured += 1; }
            self.pos = o; if self.end < o { self.end = o; }
        }
        Ok(())
    }
    pub fn write_piece_clear<T: Copy + PartialEq + PartialOrd>(&mut self, offset: PieceOffset<T>, size: PieceSize<T>) -> Result<()> {
        self.seek_from_start(offset)?;
        self.write_piece_size(size)?;
        self.write_zero_to_offset(offset + size)?;
        Ok(())
    }
    pub fn read_free_piece_offset<T>(&mut self) -> Result<Offset<T>> { Ok(Offset::new(self.rd(K::Link))) }
    pub fn write_free_piece_offset<T>(&mut self, offset: Offset<T>) -> Result<()> { self.wr(K::Link, offset.as_value(), 8, [0; BMAX]); Ok(()) }
    pub fn read_piece_size<T>(&mut self) -> Result<PieceSize<T>> { Ok(PieceSize::<T>::new((self.rd(K::Size) as u32) * 8)) }
    pub fn write_piece_size<T>(&mut self, s: PieceSize<T>) -> Result<()> { let v = (s.as_value() / 8) as u64; self.wr(K::Size, v, vw(v), [0; BMAX]); Ok(()) }
    pub fn read_key_len(&mut self) -> Result<KeyLength> { Ok(KeyLength::new(self.rd(K::Len) as u32)) }
    pub fn write_key_len(&mut self, l: KeyLength) -> Result<()> { let v = l.as_value() as u64; self.wr(K::Len, v, vw(v), [0; BMAX]); Ok(()) }
    pub fn read_value_len(&mut self) -> Result<ValueLength> { Ok(ValueLength::new(self.rd(K::Len) as u32)) }
    pub fn write_value_len(&mut self, l: ValueLength) -> Result<()> { let v = l.as_value() as u64; self.wr(K::Len, v, vw(v), [0; BMAX]); Ok(()) }
    pub fn seek_skip_to_piece_key<T: Copy + PartialEq>(&mut self, offset: PieceOffset<T>) -> Result<PieceOffset<T>> { self.seek_from_start(offset)?; let _ = self.rd(K::Size); Ok(Offset::new(self.pos)) }
    pub fn seek_skip_to_piece_value<T: Copy + PartialEq>(&mut self, offset: PieceOffset<T>) -> Result<PieceOffset<T>> { self.seek_skip_to_piece_key(offset) }
}
impl Slot { pub fn cursor_pub(&self) -> u64 { self.cursor_before_zero() } fn cursor_before_zero(&self) -> u64 { if self.body != 0 { self.p3() } else if self.len_w != 0 && self.nf >= 2 { self.p2() } else { self.p1() } } }
impl Read for VarFile { fn read(&mut self, _b: &mut [u8]) -> Result<usize> { unimplemented!() } }
impl Write for VarFile {
    fn write(&mut self, _b: &[u8]) -> Result<usize> { unimplemented!() }
    fn flush(&mut self) -> Result<()> { self.flushes += 1; Ok(()) }
}
impl rabuf::SmallRead for VarFile {
    fn read_u8(&mut self) -> Result<u8> { unimplemented!() }
    fn read_u16_le(&mut self) -> Result<u16> { unimplemented!() }
    fn read_u32_le(&mut self) -> Result<u32> { unimplemented!() }
    fn read_u64_le(&mut self) -> Result<u64> {
        let p = self.pos;
        if p < 192 && p % 8 == 0 { self.pos = p + 8; Ok(self.hdr[(p / 8) as usize]) } else { Ok(self.rd(K::Link)) }
    }
    fn read_max_8_bytes(&mut self, _s: usize) -> Result<u64> { unimplemented!() }
    fn read_exact_small(&mut self, _b: &mut [u8]) -> Result<()> { unimplemented!() }
    fn read_exact_maybeslice(&mut self, size: usize) -> Result<MaybeSlice<'_>> {
        let p = self.pos;
        let mut v = Vec::new(); let mut hit = false;
        let mut i = 0;
        while i < NS {
            let s = self.slots[i];
            if s.live && s.nf >= 3 && s.body == 1 && p == s.p2() && s.blen == size as u64 { hit = true; let mut j = 0; while j < BMAX && j < size { v.push(s.bytes[j]); j += 1; } }
            i += 1;
        }
        if !hit && size > 0 { self.garbage_reads += 1; }
        self.pos = p + size as u64;
        Ok(MaybeSlice::Buffer(v))
    }
}
impl rabuf::SmallWrite for VarFile {
    fn write_u8(&mut self, _v: u8) -> Result<()> { unimplemented!() }
    fn write_u16_le(&mut self, _v: u16) -> Result<()> { unimplemented!() }
    fn write_u32_le(&mut self, _v: u32) -> Result<()> { unimplemented!() }
    fn write_u64_le(&mut self, v: u64) -> Result<()> {
        let p = self.pos;
        if p < 192 && p % 8 == 0 { self.hdr[(p / 8) as usize] = v; self.pos = p + 8; self.writes += 1; } else { self.wr(K::Link, v, 8, [0; BMAX]); }
        Ok(())
    }
    fn write_u64_le_slice(&mut self, _s: &[u64]) -> Result<()> { unimplemented!() }
    fn write_u64_le_slice2(&mut self, _a: &[u64], _b: &[u64]) -> Result<()> { unimplemented!() }
    fn write_all_small(&mut self, buf: &[u8]) -> Result<()> {
        let mut b = [0u8; BMAX]; let mut i = 0; while i < BMAX && i < buf.len() { b[i] = buf[i]; i += 1; }
        if buf.len() > 0 { self.wr(K::Bytes, 0, buf.len() as u64, b); } else {
            // zero-length payload occupies no bytes; still a field in the sequence
            let p = self.pos; let mut i = 0; let mut done = false;
            while i < NS { let s = &mut self.slots[i]; if s.live && !done && s.nf == 2 && p == s.p2() { s.nf = 3; s.body = 1; s.blen = 0; done = true; } i += 1; }
        }
        Ok(())
    }
    fn write_zero(&mut self, _s: u32) -> Result<()> { unimplemented!() }
}
