#![allow(dead_code, unused_imports, unused_variables)]
extern crate alloc;

// Abstract world shared by the three store models.
pub mod world {
    pub const NK: usize = 3; // max key records
    pub const KMAX: usize = 2; // max key bytes
    pub const VMAX: usize = 2; // max value bytes
    #[derive(Clone, Copy, Default)]
    pub struct KeyRec { pub used: bool, pub off: u64, pub key: [u8; KMAX], pub klen: usize, pub val_off: u64, pub next: u64 }
    #[derive(Clone, Copy, Default)]
    pub struct ValRec { pub used: bool, pub off: u64, pub val: [u8; VMAX], pub vlen: usize }
    pub struct World {
        pub keys: [KeyRec; NK], pub vals: [ValRec; NK],
        pub nb: u64, pub heads: [u64; 2], pub count: u64,
        pub dirty: [bool; 3], pub flushed: [u32; 3], pub synced: [u32; 3], pub order: [u8; 6], pub norder: usize, pub fault_at: u8, pub calls: u8,
        pub bad: bool, // contract violation by the caller (dangling offset, double free...)
        pub key_freed: u32, pub val_freed: u32,
    }
    pub static mut W: World = World {
        keys: [KeyRec { used: false, off: 0, key: [0; KMAX], klen: 0, val_off: 0, next: 0 }; NK],
        vals: [ValRec { used: false, off: 0, val: [0; VMAX], vlen: 0 }; NK],
        nb: 1, heads: [0; 2], count: 0, dirty: [false; 3], flushed: [0; 3], synced: [0; 3], order: [0; 6], norder: 0, fault_at: 255, calls: 0, bad: false, key_freed: 0, val_freed: 0,
    };
    pub fn w() -> &'static mut World { unsafe { &mut *core::ptr::addr_of_mut!(W) } }
    pub fn fresh_off(is_key: bool) -> u64 {
        #[cfg(kani)]
        {
            let o: u64 = kani::any();
            kani::assume(o >= 192 && o % 8 == 0 && o < (1u64 << 40));
            let w = w();
            let mut i = 0;
            while i < NK {
                if is_key { kani::assume(!(w.keys[i].used && w.keys[i].off == o)); }
                else { kani::assume(!(w.vals[i].used && w.vals[i].off == o)); }
                i += 1;
            }
            o
        }
        #[cfg(not(kani))]
        { 0 }
    }
    /// store `who` (0 val, 1 key, 2 htx) is asked to flush (kind 0) / sync_all (1) / sync_data (2)
    pub fn flush_req(who: usize, kind: u8) -> std::io::Result<()> {
        let w = w();
        let c = w.calls; w.calls += 1;
        if c == w.fault_at { return Err(std::io::Error::from(std::io::ErrorKind::Other)); }
        w.dirty[who] = false; w.flushed[who] += 1; if kind != 0 { w.synced[who] += 1; }
        if w.norder < 6 { w.order[w.norder] = who as u8; w.norder += 1; }
        Ok(())
    }
    pub fn touch(who: usize) { w().dirty[who] = true; }
    pub fn kfind(off: u64) -> Option<usize> { let w = w(); let mut i = 0; while i < NK { if w.keys[i].used && w.keys[i].off == off { return Some(i); } i += 1; } None }
    pub fn vfind(off: u64) -> Option<usize> { let w = w(); let mut i = 0; while i < NK { if w.vals[i].used && w.vals[i].off == off { return Some(i); } i += 1; } None }
    pub fn kalloc() -> usize { let w = w(); let mut i = 0; while i < NK { if !w.keys[i].used { return i; } i += 1; } #[cfg(kani)] kani::assume(false); 0 }
    pub fn valloc() -> usize { let w = w(); let mut i = 0; while i < NK { if !w.vals[i].used { return i; } i += 1; } #[cfg(kani)] kani::assume(false); 0 }
}

pub use abyssiniandb::{DbMapKeyType, DbXxxBase, DbXxxObjectSafe};

pub mod filedb {
    pub use abyssiniandb::filedb::{CheckFileDbMap, CountOfPerSize, FileDbParams, KeysCountStats, LengthStats, RecordSizeStats};
    pub mod inner {
        #[inline] pub fn _cold() {}
        pub mod semtype { pub use abyssiniandb::filedb::verif::*; }

        pub mod key {
            use super::semtype::*;
            use crate::world::*;
            use crate::DbMapKeyType;
            use std::cell::RefCell;
            use std::io::Result;
            use std::marker::PhantomData;
            use std::path::Path;
            use std::rc::Rc;
            pub struct KeyInner<KT>(PhantomData<KT>);
            #[derive(Clone)]
            pub struct KeyFile<KT: DbMapKeyType>(pub Rc<RefCell<KeyInner<KT>>>);
            impl<KT: DbMapKeyType> std::fmt::Debug for KeyFile<KT> { fn fmt(&self, _f: &mut std::fmt::Formatter<'_>) -> std::fmt::Result { Ok(()) } }
            #[derive(Debug, Default, Clone)]
            pub struct KeyPiece<KT: DbMapKeyType> { pub offset: KeyPieceOffset, pub size: KeyPieceSize, pub key: KT, pub value_offset: ValuePieceOffset, pub bucket_next_offset: KeyPieceOffset }
            fn key_of<KT: DbMapKeyType>(r: &KeyRec) -> KT { KT::from_bytes(&r.key[..r.klen]) }
            fn idx(off: KeyPieceOffset) -> usize { match kfind(off.as_value()) { Some(i) => i, None => { w().bad = true; #[cfg(kani)] kani::assume(false); 0 } } }
            impl<KT: DbMapKeyType> KeyInner<KT> {
                pub fn read_piece_only_key_maybeslice(&mut self, off: KeyPieceOffset) -> Result<Vec<u8>> { let r = &w().keys[idx(off)]; Ok(r.key[..r.klen].to_vec()) }
                pub fn read_piece_only_bucket_next_offset(&mut self, off: KeyPieceOffset) -> Result<KeyPieceOffset> { Ok(KeyPieceOffset::new(w().keys[idx(off)].next)) }
            }
            impl<KT: DbMapKeyType> KeyFile<KT> {
                pub fn open_with_params<P: AsRef<Path>>(_p: P, _n: &str, _s: [u8; 8], _pa: &crate::filedb::FileDbParams) -> Result<Self> { Ok(Self(Rc::new(RefCell::new(KeyInner(PhantomData))))) }
                pub fn read_fill_buffer(&self) -> Result<()> { Ok(()) }
                pub fn flush(&self) -> Result<()> { flush_req(1, 0) }
                pub fn sync_all(&self) -> Result<()> { flush_req(1, 1) }
                pub fn sync_data(&self) -> Result<()> { flush_req(1, 2) }
                pub(crate) fn piece_offset_iter(&self) -> KeyPieceOffsetIter { KeyPieceOffsetIter(0) }
                pub(crate) fn read_piece_only_size(&self, off: KeyPieceOffset) -> Result<KeyPieceSize> { let _ = idx(off); Ok(KeyPieceSize::new(16)) }
                pub fn read_piece_only_key_length(&self, off: KeyPieceOffset) -> Result<KeyLength> { Ok(KeyLength::new(w().keys[idx(off)].klen as u32)) }
                pub fn read_piece_only_key(&self, off: KeyPieceOffset) -> Result<KT> { Ok(key_of(&w().keys[idx(off)])) }
                pub fn read_piece_only_value_offset(&self, off: KeyPieceOffset) -> Result<ValuePieceOffset> { Ok(ValuePieceOffset::new(w().keys[idx(off)].val_off)) }
                pub fn read_piece(&self, off: KeyPieceOffset) -> Result<KeyPiece<KT>> {
                    let r = w().keys[idx(off)];
                    Ok(KeyPiece { offset: off, size: KeyPieceSize::new(16), key: key_of(&r), value_offset: ValuePieceOffset::new(r.val_off), bucket_next_offset: KeyPieceOffset::new(r.next) })
                }
                /// rewrite of an existing record: may relocate (new offset) at the store's discretion
                pub fn write_piece(&self, mut piece: KeyPiece<KT>) -> Result<KeyPiece<KT>> {
                    let i = idx(piece.offset);
                    #[cfg(kani)]
                    { let reloc: bool = kani::any(); if reloc { let o = fresh_off(true); kani::assume(o != piece.offset.as_value()); w().keys[i].off = o; piece.offset = KeyPieceOffset::new(o); } }
                    touch(1); let r = &mut w().keys[i];
                    r.val_off = piece.value_offset.as_value();
                    r.next = piece.bucket_next_offset.as_value();
                    Ok(piece)
                }
                pub fn delete_piece(&self, off: KeyPieceOffset) -> Result<KeyPieceSize> { touch(1); let i = idx(off); w().keys[i].used = false; w().key_freed += 1; Ok(KeyPieceSize::new(16)) }
                pub fn add_key_piece(&self, key: &KT, value_offset: ValuePieceOffset, next: KeyPieceOffset) -> Result<KeyPiece<KT>> {
                    touch(1); let i = kalloc();
                    let o = fresh_off(true);
                    let kb = key.as_bytes();
                    #[cfg(kani)] kani::assume(kb.len() <= KMAX);
                    let r = &mut w().keys[i];
                    r.used = true; r.off = o; r.klen = kb.len();
                    let mut j = 0; while j < kb.len() { r.key[j] = kb[j]; j += 1; }
                    r.val_off = value_offset.as_value(); r.next = next.as_value();
                    Ok(KeyPiece { offset: KeyPieceOffset::new(o), size: KeyPieceSize::new(16), key: key.clone(), value_offset, bucket_next_offset: next })
                }
                pub fn count_of_free_key_piece(&self) -> Result<Vec<(u32, u64)>> { Ok(Vec::new()) }
            }
            #[derive(Debug)]
            pub struct KeyPieceOffsetIter(usize);
            impl Iterator for KeyPieceOffsetIter { type Item = KeyPieceOffset; fn next(&mut self) -> Option<KeyPieceOffset> { None } }
        }

        pub mod val {
            use super::semtype::*;
            use crate::world::*;
            use std::io::Result;
            use std::path::Path;
            #[derive(Debug, Clone)]
            pub struct ValueFile;
            #[derive(Debug, Default, Clone)]
            pub struct ValuePiece { pub offset: ValuePieceOffset, pub size: ValuePieceSize, pub value: Vec<u8> }
            fn idx(off: ValuePieceOffset) -> usize { match vfind(off.as_value()) { Some(i) => i, None => { w().bad = true; #[cfg(kani)] kani::assume(false); 0 } } }
            fn store(i: usize, value: &[u8]) { #[cfg(kani)] kani::assume(value.len() <= VMAX); let r = &mut w().vals[i]; r.vlen = value.len(); let mut j = 0; while j < value.len() { r.val[j] = value[j]; j += 1; } }
            impl ValueFile {
                pub fn open_with_params<P: AsRef<Path>>(_p: P, _n: &str, _s: [u8; 8], _pa: &crate::filedb::FileDbParams) -> Result<Self> { Ok(ValueFile) }
                pub fn read_fill_buffer(&self) -> Result<()> { Ok(()) }
                pub fn flush(&self) -> Result<()> { flush_req(0, 0) }
                pub fn sync_all(&self) -> Result<()> { flush_req(0, 1) }
                pub fn sync_data(&self) -> Result<()> { flush_req(0, 2) }
                pub(crate) fn piece_offset_iter(&self) -> ValuePieceOffsetIter { ValuePieceOffsetIter(0) }
                pub(crate) fn read_piece_only_size(&self, off: ValuePieceOffset) -> Result<ValuePieceSize> { let _ = idx(off); Ok(ValuePieceSize::new(16)) }
                pub fn read_piece_only_value_length(&self, off: ValuePieceOffset) -> Result<ValueLength> { Ok(ValueLength::new(w().vals[idx(off)].vlen as u32)) }
                pub fn read_piece_only_value(&self, off: ValuePieceOffset) -> Result<Vec<u8>> { let r = &w().vals[idx(off)]; Ok(r.val[..r.vlen].to_vec()) }
                pub fn read_piece(&self, off: ValuePieceOffset) -> Result<ValuePiece> { let r = &w().vals[idx(off)]; Ok(ValuePiece { offset: off, size: ValuePieceSize::new(16), value: r.val[..r.vlen].to_vec() }) }
                pub fn write_piece(&self, mut piece: ValuePiece) -> Result<ValuePiece> {
                    let i = idx(piece.offset);
                    #[cfg(kani)]
                    { let reloc: bool = kani::any(); if reloc { let o = fresh_off(false); kani::assume(o != piece.offset.as_value()); w().vals[i].off = o; piece.offset = ValuePieceOffset::new(o); } }
                    touch(0); store(i, &piece.value);
                    Ok(piece)
                }
                pub fn delete_piece(&self, off: ValuePieceOffset) -> Result<ValuePieceSize> { touch(0); let i = idx(off); w().vals[i].used = false; w().val_freed += 1; Ok(ValuePieceSize::new(16)) }
                pub fn add_value_piece(&self, value: &[u8]) -> Result<ValuePiece> {
                    touch(0); let i = valloc(); let o = fresh_off(false);
                    { let r = &mut w().vals[i]; r.used = true; r.off = o; }
                    store(i, value);
                    Ok(ValuePiece { offset: ValuePieceOffset::new(o), size: ValuePieceSize::new(16), value: value.to_vec() })
                }
                pub fn count_of_free_value_piece(&self) -> Result<Vec<(u32, u64)>> { Ok(Vec::new()) }
            }
            #[derive(Debug)]
            pub struct ValuePieceOffsetIter(usize);
            impl Iterator for ValuePieceOffsetIter { type Item = ValuePieceOffset; fn next(&mut self) -> Option<ValuePieceOffset> { None } }
        }

        pub mod htx {
            use super::semtype::*;
            use crate::world::*;
            use std::cell::RefCell;
            use std::io::Result;
            use std::path::Path;
            use std::rc::Rc;
            pub struct HtxVarFile;
            impl HtxVarFile {
                pub fn next_key_piece_offset(&mut self, n: u64, idx: u64) -> Result<(u64, KeyPieceOffset)> {
                    let w = w(); let mut i = idx;
                    while i < n { let h = w.heads[i as usize]; i += 1; if h != 0 { return Ok((i, KeyPieceOffset::new(h))); } }
                    Ok((i, KeyPieceOffset::new(0)))
                }
            }
            pub struct HtxInner { pub file: HtxVarFile }
            #[derive(Clone)]
            pub struct HtxFile(pub Rc<RefCell<HtxInner>>);
            impl std::fmt::Debug for HtxFile { fn fmt(&self, _f: &mut std::fmt::Formatter<'_>) -> std::fmt::Result { Ok(()) } }
            impl HtxFile {
                pub fn open_with_params<P: AsRef<Path>>(_p: P, _n: &str, _s: [u8; 8], _pa: &crate::filedb::FileDbParams) -> Result<Self> { Ok(Self(Rc::new(RefCell::new(HtxInner { file: HtxVarFile })))) }
                pub fn read_fill_buffer(&self) -> Result<()> { Ok(()) }
                pub fn flush(&self) -> Result<()> { flush_req(2, 0) }
                pub fn sync_all(&self) -> Result<()> { flush_req(2, 1) }
                pub fn sync_data(&self) -> Result<()> { flush_req(2, 2) }
                pub fn read_hash_buckets_size(&self) -> Result<u64> { Ok(w().nb) }
                pub fn read_key_piece_offset(&self, hash: HashValue) -> Result<KeyPieceOffset> { let w = w(); Ok(KeyPieceOffset::new(w.heads[(hash.as_value() % w.nb) as usize])) }
                pub fn write_key_piece_offset(&self, hash: HashValue, off: KeyPieceOffset) -> Result<()> { touch(2); let w = w(); w.heads[(hash.as_value() % w.nb) as usize] = off.as_value(); Ok(()) }
                pub fn read_item_count(&self) -> Result<u64> { Ok(w().count) }
                pub fn write_item_count_up(&mut self) -> Result<()> { touch(2); w().count += 1; Ok(()) }
                pub fn write_item_count_down(&mut self) -> Result<()> { touch(2); let w = w(); if w.count > 0 { w.count -= 1; } Ok(()) }
                pub fn htx_filling_rate_per_mill(&self) -> Result<(u64, u32)> { Ok((0, 0)) }
            }
        }

        #[path = "/tmp/probe/repo/src/filedb/inner/dbxxx.rs"]
        pub mod dbxxx;
    }
}

#[cfg(kani)]
mod proofs {
    use crate::filedb::inner::dbxxx::FileDbXxxInner;
    use crate::world::*;
    use abyssiniandb::{DbBytes, DbMapKeyType, DbXxxBase, DbXxxObjectSafe, HashValue};

    pub fn ok<T>(r: std::io::Result<T>) -> T { match r { Ok(v) => v, Err(e) => { core::mem::forget(e); panic!("io error") } } }

    fn any_key() -> ([u8; KMAX], usize) { let k: [u8; KMAX] = kani::any(); let l: usize = kani::any(); kani::assume(l <= KMAX); (k, l) }
    fn keq(a: &([u8; KMAX], usize), b: &([u8; KMAX], usize)) -> bool { if a.1 != b.1 { return false; } let mut i = 0; while i < a.1 { if a.0[i] != b.0[i] { return false; } i += 1; } true }

    /// arbitrary valid single-bucket state with 0..=2 entries
    fn setup() -> usize {
        let w = w();
        w.nb = 1;
        let n: usize = kani::any();
        kani::assume(n <= 2);
        let mut next = 0u64;
        let mut i = 0;
        while i < n {
            let (k, l) = any_key();
            let ko = fresh_off(true);
            w.keys[i] = KeyRec { used: true, off: ko, key: k, klen: l, val_off: 0, next };
            let vo = fresh_off(false);
            let v: [u8; VMAX] = kani::any(); let vl: usize = kani::any(); kani::assume(vl <= VMAX);
            w.vals[i] = ValRec { used: true, off: vo, val: v, vlen: vl };
            w.keys[i].val_off = vo;
            next = ko;
            i += 1;
        }
        if n == 2 { kani::assume(!keq(&(w.keys[0].key, w.keys[0].klen), &(w.keys[1].key, w.keys[1].klen))); }
        w.heads[0] = next;
        w.count = n as u64;
        n
    }
    fn model_get(k: &([u8; KMAX], usize)) -> Option<([u8; VMAX], usize)> {
        let w = w(); let mut i = 0;
        while i < NK { if w.keys[i].used && keq(&(w.keys[i].key, w.keys[i].klen), k) { let j = vfind(w.keys[i].val_off).unwrap(); return Some((w.vals[j].val, w.vals[j].vlen)); } i += 1; }
        None
    }

    #[kani::proof]
    #[kani::unwind(5)]
    fn put_step() {
        let n = setup();
        let mut m: FileDbXxxInner<DbBytes> = ok(FileDbXxxInner::open_with_params("x", "m", Default::default()));
        let k = any_key();
        let other = any_key();
        kani::assume(!keq(&k, &other));
        let before_other = model_get(&other);
        let was = model_get(&k).is_some();
        let v: [u8; VMAX] = kani::any(); let vl: usize = kani::any(); kani::assume(vl <= VMAX);
        let kt = DbBytes::from(&k.0[..k.1]);
        ok(m.put_kt(&kt, &v[..vl]));
        // ideal-map postcondition
        let got = ok(m.get_kt(&kt)).unwrap();
        assert!(got.len() == vl);
        let mut i = 0; while i < vl { assert!(got[i] == v[i]); i += 1; }
        assert!(ok(m.len()) == n as u64 + if was { 0 } else { 1 });
        let after_other = model_get(&other);
        assert!(before_other.is_some() == after_other.is_some());
        let ko = DbBytes::from(&other.0[..other.1]);
        let g2 = ok(m.get_kt(&ko));
        assert!(g2.is_some() == before_other.is_some());
        assert!(!w().bad);
        core::mem::forget(m);
    }

    fn build_kt(k: &([u8; KMAX], usize)) -> DbBytes { DbBytes::from(&k.0[..k.1]) }

    #[kani::proof]
    #[kani::unwind(5)]
    fn del_step() {
        let n = setup();
        let mut m: FileDbXxxInner<DbBytes> = ok(FileDbXxxInner::open_with_params("x", "m", Default::default()));
        let k = any_key();
        let other = any_key();
        kani::assume(!keq(&k, &other));
        let before_other = model_get(&other);
        let before = model_get(&k);
        let r = ok(m.del_kt(&build_kt(&k)));
        match (r, before) {
            (Some(v), Some((bv, bl))) => { assert!(v.len() == bl); let mut i = 0; while i < bl { assert!(v[i] == bv[i]); i += 1; } }
            (None, None) => (),
            _ => assert!(false, "delete result differs from ideal map"),
        }
        assert!(model_get(&k).is_none());
        assert!(ok(m.get_kt(&build_kt(&k))).is_none());
        assert!(ok(m.len()) == n as u64 - if before.is_some() { 1 } else { 0 });
        let g2 = ok(m.get_kt(&build_kt(&other)));
        assert!(g2.is_some() == before_other.is_some());
        // both records of the deleted entry were freed, nothing else
        let w = w();
        if before.is_some() { assert!(w.key_freed == 1 && w.val_freed == 1); } else { assert!(w.key_freed == 0 && w.val_freed == 0); }
        assert!(!w.bad);
        kani::cover!(before.is_some() && n == 2, "deleted from a 2-chain");
        core::mem::forget(m);
    }

    #[kani::proof]
    #[kani::unwind(5)]
    fn iter_step() {
        use crate::filedb::inner::dbxxx::DbXxxIterMut;
        use std::cell::RefCell;
        use std::rc::Rc;
        let n = setup();
        let m: FileDbXxxInner<DbBytes> = ok(FileDbXxxInner::open_with_params("x", "m", Default::default()));
        let rc = Rc::new(RefCell::new(m));
        let mut it = ok(DbXxxIterMut::new(rc.clone()));
        let mut seen = [false; NK];
        let mut i = 0;
        while i < n {
            assert!(it.size_hint() == (n - i, Some(n - i)));
            let (k, v) = it.next().unwrap();
            // must be a stored entry not seen before, with its value
            let kb = k.as_bytes();
            let w = w();
            let mut hit = NK; let mut j = 0;
            while j < NK { if w.keys[j].used && w.keys[j].klen == kb.len() { let mut e = true; let mut t = 0; while t < kb.len() { if kb[t] != w.keys[j].key[t] { e = false; } t += 1; } if e { hit = j; } } j += 1; }
            assert!(hit < NK, "yielded a key that is not stored");
            assert!(!seen[hit], "yielded a key twice");
            seen[hit] = true;
            let vi = vfind(w.keys[hit].val_off).unwrap();
            assert!(v.len() == w.vals[vi].vlen);
            i += 1;
        }
        assert!(it.size_hint() == (0, Some(0)));
        assert!(it.next().is_none());
        assert!(it.next().is_none());
        kani::cover!(n == 2, "two entries");
        core::mem::forget(it); core::mem::forget(rc);
    }

    #[kani::proof]
    #[kani::unwind(5)]
    fn flush_fault_step() {
        let n = setup();
        let mut m: FileDbXxxInner<DbBytes> = ok(FileDbXxxInner::open_with_params("x", "m", Default::default()));
        let k = any_key();
        let v: [u8; VMAX] = kani::any(); let vl: usize = kani::any(); kani::assume(vl <= VMAX);
        let del: bool = kani::any();
        if del { let _ = ok(m.del_kt(&build_kt(&k))); } else { ok(m.put_kt(&build_kt(&k), &v[..vl])); }
        let touched = w().dirty;
        let expect = model_get(&k);
        // first attempt: one of the three store flushes may fail
        let f: u8 = kani::any(); kani::assume(f < 3 || f == 255);
        w().fault_at = f; w().calls = 0;
        let kind: u8 = kani::any(); kani::assume(kind < 3);
        let r = match kind { 0 => m.flush(), 1 => m.sync_all(), _ => m.sync_data() };
        match r {
            Ok(()) => {
                assert!(f == 255, "a failing store flush was swallowed");
                let w = w();
                assert!(!w.dirty[0] && !w.dirty[1] && !w.dirty[2], "Ok flush left a store dirty");
                if kind != 0 { let mut i = 0; while i < 3 { if touched[i] { assert!(w.synced[i] >= 1); } i += 1; } }
                assert!(w.norder == 3 && w.order[0] == 0 && w.order[1] == 1 && w.order[2] == 2, "order value, key, table");
            }
            Err(e) => {
                core::mem::forget(e);
                assert!(f != 255, "flush failed without a fault");
                // in-memory view still right
                let g = ok(m.get_kt(&build_kt(&k)));
                assert!(g.is_some() == expect.is_some());
                // recovery: a later fault-free flush cleans everything
                w().fault_at = 255;
                ok(m.flush());
                let w = w();
                assert!(!w.dirty[0] && !w.dirty[1] && !w.dirty[2], "recovery flush left a store dirty");
            }
        }
        kani::cover!(f == 1, "key store flush failed");
        kani::cover!(f == 255 && kind == 2, "sync_data ok");
        core::mem::forget(m);
    }
}
