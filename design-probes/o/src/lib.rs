extern crate alloc;
#[cfg(kani)]
mod proofs {
    use abyssiniandb::filedb::verif::{self, HtxFile};
    use abyssiniandb::filedb::{FileDbParams, HashBucketsParam, FileBufSizeParam};
    use std::fs::{File, OpenOptions};
    use std::os::fd::FromRawFd;
    use std::path::Path;
    pub fn fmt_stub(_a: std::fmt::Arguments<'_>) -> String { String::new() }
    pub fn dbg_stub(_e: &std::io::Error, _f: &mut std::fmt::Formatter<'_>) -> std::fmt::Result { Ok(()) }
    fn open_stub<P: AsRef<Path>>(_o: &OpenOptions, _p: P) -> std::io::Result<File> { Ok(unsafe { File::from_raw_fd(100) }) }

    #[kani::proof]
    #[kani::unwind(12)]
    #[kani::stub(alloc::fmt::format, fmt_stub)]
    #[kani::stub(<std::io::Error as std::fmt::Debug>::fmt, dbg_stub)]
    #[kani::stub(std::fs::OpenOptions::open, open_stub)]
    fn htx_reopen_ignores_params() {
        // existing table file: valid signatures, stored bucket count 8, symbolic item count
        let n: u64 = 8;
        let total = (128 + n * 8 + n / 8) as usize;
        let mut img = vec![0u8; total + 16];
        let s1 = *b"abysdbH\0"; let s2 = *b"bytes\0\0\0";
        let mut i = 0; while i < 8 { img[i] = s1[i]; img[8 + i] = s2[i]; i += 1; }
        img[16] = 8;
        rabuf::set_next_image(img, total as u64);
        // symbolic parameters
        let b: u64 = kani::any();
        let which: u8 = kani::any();
        let params = FileDbParams {
            buckets_size: match which % 3 { 0 => HashBucketsParam::BucketsSize(b), 1 => HashBucketsParam::Capacity(b), _ => HashBucketsParam::Default },
            ..Default::default()
        };
        let r = HtxFile::open_with_params("d", "m", s2, &params);
        let h = match r { Ok(h) => h, Err(e) => { core::mem::forget(e); panic!() } };
        let stored = match h.read_hash_buckets_size() { Ok(v) => v, Err(e) => { core::mem::forget(e); panic!() } };
        assert!(stored == 8);
        assert!(verif::htx::cached_buckets_size(&h) == 8);
        core::mem::forget(h);
    }
}
