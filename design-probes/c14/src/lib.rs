#[cfg(kani)]
mod proofs {
    use abyssiniandb::{DbU64, DbXxx, DbXxxBase, DbXxxObjectSafe, DbMapKeyType};
    use std::io::Result;
    const N: usize = 3;
    /// ideal map over DbU64 keys with 1-byte values, capacity N
    struct Ideal { used: [bool; N], k: [u64; N], v: [u8; N], log: [u64; 4], nlog: usize }
    impl DbXxxBase for Ideal {
        fn len(&self) -> Result<u64> { let mut c = 0; let mut i = 0; while i < N { if self.used[i] { c += 1; } i += 1; } Ok(c) }
        fn read_fill_buffer(&mut self) -> Result<()> { Ok(()) }
        fn flush(&mut self) -> Result<()> { Ok(()) }
        fn sync_all(&mut self) -> Result<()> { Ok(()) }
        fn sync_data(&mut self) -> Result<()> { Ok(()) }
    }
    impl Ideal {
        fn find(&self, k: u64) -> Option<usize> { let mut i = 0; while i < N { if self.used[i] && self.k[i] == k { return Some(i); } i += 1; } None }
    }
    impl DbXxxObjectSafe<DbU64> for Ideal {
        fn get_kt(&mut self, key: &DbU64) -> Result<Option<Vec<u8>>> { let k = u64::from(key); Ok(self.find(k).map(|i| vec![self.v[i]])) }
        fn put_kt(&mut self, key: &DbU64, value: &[u8]) -> Result<()> {
            let k = u64::from(key);
            let i = match self.find(k) { Some(i) => i, None => { let mut j = 0; while j < N && self.used[j] { j += 1; } kani::assume(j < N); j } };
            self.used[i] = true; self.k[i] = k; self.v[i] = value[0]; Ok(())
        }
        fn del_kt(&mut self, key: &DbU64) -> Result<Option<Vec<u8>>> { let k = u64::from(key); Ok(match self.find(k) { Some(i) => { self.used[i] = false; Some(vec![self.v[i]]) } None => None }) }
        fn includes_key_kt(&mut self, key: &DbU64) -> Result<bool> { Ok(self.find(u64::from(key)).is_some()) }
    }
    impl DbXxx<DbU64> for Ideal {}
    fn ok<T>(r: Result<T>) -> T { match r { Ok(v) => v, Err(e) => { core::mem::forget(e); panic!() } } }

    #[kani::proof]
    #[kani::unwind(10)]
    fn bulk_get_positional() {
        let mut m = Ideal { used: kani::any(), k: kani::any(), v: kani::any(), log: [0; 4], nlog: 0 };
        // keys distinct where used
        kani::assume(!(m.used[0] && m.used[1] && m.k[0] == m.k[1]));
        kani::assume(!(m.used[0] && m.used[2] && m.k[0] == m.k[2]));
        kani::assume(!(m.used[1] && m.used[2] && m.k[1] == m.k[2]));
        let q: [u64; 3] = kani::any();
        let expect = [m.find(q[0]).map(|i| m.v[i]), m.find(q[1]).map(|i| m.v[i]), m.find(q[2]).map(|i| m.v[i])];
        let r = ok(m.bulk_get(&[&q[0], &q[1], &q[2]]));
        assert!(r.len() == 3);
        let mut i = 0;
        while i < 3 {
            match (&r[i], expect[i]) { (Some(v), Some(e)) => assert!(v.len() == 1 && v[0] == e), (None, None) => (), _ => assert!(false) }
            i += 1;
        }
    }
}
