"""Registry: which solver queries (Kani harnesses) decide which property, at which tier."""
from vlib import Harness as H

TB_COMMON = [
    "Kani 0.68.0 / CBMC 6.11.0 / CaDiCaL and rustc's MIR for the pinned Kani toolchain",
    "vu64 0.1.11 as compiled (its unsafe table lookup is executed symbolically, not modelled)",
    "the frozen format specification /verif/spec/format.rs (validated natively against files written by the real crate: bin/validate spec)",
]
ASSUME_COMMON = [
    "64-bit little-endian target (usize = 8 bytes), default cargo features of abyssiniandb (vf_vu64, htx_bitmap, rabuf_default)",
    "dev-profile semantics as Kani models them: debug assertions and arithmetic-overflow checks ON",
]

# ---------------------------------------------------------------------------- layer K
K_VSLOT = H("k", "k_vslot_16m", "value record (real ValuePiece::encoded_piece_size + PieceMgr::roundup) never exceeds its slot, slot is a documented class, free record fits, in-place rewrite into any larger old slot fits",
            cap=120, bounds="ALL value lengths 0..2^24 (one symbolic u32), ALL old slot sizes", functions=["val.rs ValuePiece::encoded_piece_size", "piece.rs PieceMgr::roundup", "vu64::encoded_len"])
K_VSLOT_2G = H("k", "k_vslot_2g", "same as k_vslot_16m", tier="thorough", cap=300, bounds="ALL value lengths 0..2^31-16")
K_KSLOT = H("k", "k_kslot_64k", "key record (real KeyPiece::encoded_piece_size + roundup) never exceeds its slot although the crate estimates with enc(offset) and writes enc(offset/8)",
            cap=120, bounds="ALL key lengths 0..2^16, ALL 8-aligned value offsets and chain links < 2^56", functions=["key.rs KeyPiece::encoded_piece_size", "piece.rs PieceMgr::roundup"])
K_KSLOT_16M = H("k", "k_kslot_16m", "same as k_kslot_64k", tier="thorough", cap=300, bounds="ALL key lengths 0..2^24, ALL 8-aligned offsets < 2^64")
K_KGROW = H("k", "k_kslot_can_grow", "slot class of a key record is monotone in its two offsets; witnesses that a changed value offset / chain link alone can force a bigger class (relocation is reachable)",
            cap=120, bounds="key length <= 64, offsets < 2^40")
K_ROUNDUP = H("k", "k_class_roundup", "roundup: >= request, documented class, monotone, minimal, identical for key and value files", cap=120, bounds="ALL sizes 1..2^31",
              functions=["piece.rs PieceMgr::roundup"])
K_LISTS = H("k", "k_class_lists", "free-list head offset of every legal slot size is the documented one (push by actual size and pop by requested size agree); large = >= 1024", cap=120,
            bounds="ALL legal slot sizes (u32)", functions=["piece.rs PieceMgr::free_piece_list_offset_of_header", "piece.rs PieceMgr::is_large_piece_size"])
K_CAP = H("k", "k_capacity_to_buckets", "Capacity(c) -> power of two, >= 8, >= c, < 2x needed", cap=120, bounds="ALL capacities 1..2^60", functions=["htx.rs capacity_to_buckets_size"])
K_CAP0 = H("k", "k_capacity_zero_panics", "Capacity(0) panics as documented", cap=60, mode="panic")
K_INT = [H("k", "k_int_" + t, "%s <-> key: round trip, by-value = by-reference bytes, cmp_u8 Equal iff integers equal, equal keys hash equally, from_bytes(as_bytes) converts back" % t,
           cap=180, bounds="ALL 2^64 x 2^64 integer pairs", functions=["kt_db%s.rs From impls, cmp_u8, from_bytes" % t, "lib.rs HashValue::hash_value, MyHasher"]) for t in ["u64", "i64"]]
K_INT += [
    H("k", "k_int_vu64_roundtrip", "u64 -> DbVu64 -> u64 round trip; key bytes = documented vu64 pattern; from_bytes(as_bytes) converts back", cap=300, bounds="ALL u64", functions=["kt_dbvu64.rs From impls, from_bytes", "vu64::encode", "vu64::decode"]),
    H("k", "k_int_vu64_byref", "DbVu64: by-value and by-reference conversions give identical bytes", cap=300, bounds="ALL u64"),
    H("k", "k_int_vu64_eq", "DbVu64::cmp_u8 (decoding comparison) is Equal iff the integers are equal, and never fails to decode an encoded key", cap=300, bounds="ALL 2^64 x 2^64 pairs", functions=["kt_dbvu64.rs cmp_u8"]),
]
K_BYTES = [H("k", "k_bytes_db" + t, "Db%s: cmp_u8 Equal iff same length and bytes; from_bytes(as_bytes(k)) = k" % t.capitalize(), cap=180,
             bounds="ALL pairs of byte strings of length 0..8 (every byte value: prefixes, NULs, non-UTF-8)") for t in ["bytes", "string"]]
K_VU64 = H("k", "k_vu64_codec", "vu64::encode = documented bit pattern, encoded_len, decode(encode(v)) = v", cap=180, bounds="ALL u64", functions=["vu64::encode", "vu64::decode", "vu64::encoded_len", "vu64::decoded_len"])
K_SIGV = H("k", "k_sig_values", "the five type signatures are the released ones", cap=60)
K_SIGD = H("k", "k_sig_distinct", "type signatures are pairwise different (all pairs except u64/vu64, asserted separately)", cap=60)
K_SIGUV = H("k", "k_sig_u64_vs_vu64", "DbU64 and DbVu64 signatures differ", cap=60)


def K_HASH(tier_full="thorough"):
    out = []
    for t, mx in [("bytes", 17), ("string", 17), ("u64", 9), ("i64", 9), ("vu64", 9)]:
        out.append(H("k", "k_hash_db" + t, "hash_value of Db%s = released placement hash (length word, 8-byte big-endian words, x^=x>>12; x^=x<<25; x^=x>>27)" % t,
                     cap=300, bounds="ALL keys of length 0..%d" % mx, functions=["lib.rs HashValue::hash_value", "lib.rs MyHasher::write", "lib.rs _xorshift64s", "derive(Hash) of the key newtype"]))
    return out



# ---------------------------------------------------------------------------- layer M
M_FUN = ["dbxxx.rs FileDbXxxInner::find_in_hash_buckets_kt"]
M_TB = ["layer M runs the REAL src/filedb/inner/dbxxx.rs (re-read from /repo at every build) against abstract key/value/table stores written from the R=>M contract (kani/CONTRACTS.md): rewrite keeps the address iff the released sizing rule (spec::key_slot_chosen, shown equal to the crate's own computation for all inputs by k_kslot_*) fits the slot; dangling or freed addresses are assertion failures at the store",
        "in the statistics harnesses RecordSizeStats::touch_size / LengthStats::touch_length are replaced (kani::stub) by a log of the touched values (the real containers are decided by k_touch_*)",
        "HashValue::hash_value is replaced (kani::stub) by the released placement hash of the bytes the key's derived Hash feeds to the hasher; harnesses k_hash_* show for all five key types and all keys up to 17 bytes that the crate's own hash_value() is that function",
        "the prose induction of DESIGN 2: every harness starts from an arbitrary state built from solver variables that satisfies I2 and asserts I2 afterwards"]
M_BOUNDS = "ANY valid pre-state with 0..2 live entries (thorough: 0..3) over 1 or 2 buckets in any chain order; every key of 0..2 tracked bytes (+ 0..12 untracked padding bytes that only count for the slot size), every value of 0..2 bytes with a solver-chosen monotone slot-class function; every 8-aligned record address in [192, 2^56) (so every offset-field width 2..8); every legal small slot size left behind by earlier rewrites"
M_ASSUME = ["level M: structure bounds as stated per harness; store capacity 4 (5) record slots per file; values longer than 2 bytes are represented by their slot class only"]


# Kani's per-assertion reachability covers cost ~20 extra SAT calls per harness (measured: 380 s ->
# 150 s); vacuity is guarded by the explicit case witnesses (kani::cover!) of every harness instead
NOREACH = ["-Z", "unstable-options", "--no-assertion-reach-checks"]


def M(name, what, cap=900, tier="quick", functions=None, may_unsat=None, big=False, **kw):
    kw.setdefault("extra", NOREACH)
    return H("m", name, what, tier=tier, cap=cap, mem_gb=14, stubbing=True, bounds=M_BOUNDS, functions=(functions or []) + M_FUN, assumptions=M_ASSUME,
             may_unsat=may_unsat, features=["big"] if big else None, **kw)


F_PUT = ["dbxxx.rs put_kt", "dbxxx.rs store_value_on_insert", "dbxxx.rs relink_moved_key", "dbxxx.rs find_prev_in_hash_bucket"]
F_DEL = ["dbxxx.rs del_kt", "dbxxx.rs relink_moved_key", "dbxxx.rs find_prev_in_hash_bucket"]
F_GET = ["dbxxx.rs get_kt", "dbxxx.rs includes_key_kt", "dbxxx.rs len", "lib.rs DbXxxBase::is_empty", "dbxxx.rs load_value"]
F_IT = ["dbxxx.rs DbXxxIterMut::new", "dbxxx.rs DbXxxIterMut::next_piece_offset", "dbxxx.rs DbXxxIterMut::next", "dbxxx.rs size_hint (all five iterators)"]
F_FL = ["dbxxx.rs flush", "dbxxx.rs sync_all", "dbxxx.rs sync_data", "dbxxx.rs is_dirty / dirty flag handling in open_with_params, put_kt, del_kt"]
W_PUT_NEW = "put of an ABSENT key from any valid state = ideal map (value readable, len+1, an arbitrary other key unchanged), I2 afterwards, exactly one record added per file, no panic, loops terminate"
W_PUT_OVER = "put of a PRESENT key: value replaced, every other entry unchanged, I2 afterwards also when the value record, the key record and (cascade) its chain predecessor move; moved records are freed exactly once"
W_DEL_HIT = "delete of a PRESENT key at any chain position: returns the stored value, entry gone, others unchanged, both records freed, predecessor relinked (also when it has to move), I2 afterwards"
W_DEL_MISS = "delete of an ABSENT key: None, every entry unchanged, nothing freed or added, I2 afterwards"
W_LOOK = "get / includes_key / len / is_empty / read_fill_buffer / flush|sync on a clean handle = ideal map, under the read-only latch (any store write is a failure)"


def M_KT(kt, tier="quick"):
    return {
        "put_new": M("m_put_new_" + kt, W_PUT_NEW, functions=F_PUT, tier=tier, may_unsat=["value record moved", "key record moved", "relocation cascade", "moved key was"]),
        "put_over": M("m_put_over_" + kt, W_PUT_OVER, functions=F_PUT, tier=tier),
        # with at most 2 live entries the predecessor's link can only shrink on a delete: the
        # "predecessor moved" witness needs a chain of 3 (thorough tier, feature big)
        "del_hit": M("m_del_hit_" + kt, W_DEL_HIT, functions=F_DEL, tier=tier, may_unsat=["predecessor moved while being relinked"]),
        "del_miss": M("m_del_miss_" + kt, W_DEL_MISS, functions=F_DEL, tier=tier, may_unsat=["deleted from inside", "deleted the head", "predecessor moved"]),
        "lookup": M("m_lookup_" + kt, W_LOOK, functions=F_GET + F_FL, tier=tier),
    }


MB, MV, MS = M_KT("bytes"), M_KT("vu64"), M_KT("string")
BIG_B = "the same with 0..3 live entries (chains of up to 3, cascades of up to 3 moves) and 5 record slots per store"
M_BIG = {k: M("m_%s_bytes" % n, w + "; " + BIG_B, functions=f, tier="thorough", big=True, cap=2400, may_unsat=mu)
         for k, n, w, f, mu in [("put_new", "put_new", W_PUT_NEW, F_PUT, ["value record moved", "key record moved", "relocation cascade", "moved key was"]), ("put_over", "put_over", W_PUT_OVER, F_PUT, None),
                                ("del_hit", "del_hit", W_DEL_HIT, F_DEL, None), ("lookup", "lookup", W_LOOK, F_GET + F_FL, None), ("iter_mut", "iter_mut", "full traversal with iter_mut()", F_IT, None)]}
M_ITER = {n: M("m_%s_bytes" % n, "full traversal with %s: every live entry exactly once with its current value, exact size_hint before every step, len() items, None twice after the end, no store write" % d, functions=F_IT)
          for n, d in [("iter_mut", "iter_mut()"), ("iter", "iter()"), ("into_iter", "into_iter()"), ("keys", "keys()"), ("values", "values()")]}
M_ITER_X = [M("m_iter_mut_vu64", "traversal, DbVu64 keys (decoding comparison)", functions=F_IT, tier="thorough"), M("m_keys_vu64", "keys() yields the stored key bytes, DbVu64", functions=F_IT),
            M("m_iter_string", "traversal, DbString keys", functions=F_IT), M("m_values_string", "values(), DbString keys", functions=F_IT, tier="thorough")]
W_FL = "from a handle with nothing pending (or a freshly opened one): %s, then flush / sync_all / sync_data (solver's choice): on Ok no store holds unwritten updates and every modified file was flushed (and synced with the matching OS sync) AFTER its last write"
FAULT_COVERS = ["key store flush failed", "table flush failed"]
OK_COVERS = ["sync_data with pending updates", "flush after an update on a clean handle", "freshly opened handle"]
M_FLUSH = [M("m_flush_put_bytes", W_FL % "one put (new or existing key)", functions=F_FL + F_PUT, may_unsat=FAULT_COVERS), M("m_flush_del_bytes", W_FL % "one delete (present or absent key)", functions=F_FL + F_DEL, may_unsat=FAULT_COVERS),
           M("m_flush_noop_bytes", W_FL % "no update", functions=F_FL, cap=300, may_unsat=FAULT_COVERS + ["flush after an update on a clean handle"])]
W_FA = "%s, then flush / sync_* with the 1st, 2nd or 3rd file's flush failing: the call returns Err, get still answers like the ideal map, and a later fault-free flush leaves no unwritten update"
M_FAULT = [M("m_fault_put_bytes", W_FA % "one put", functions=F_FL + F_PUT, may_unsat=OK_COVERS), M("m_fault_del_bytes", W_FA % "one delete", functions=F_FL + F_DEL, may_unsat=OK_COVERS)]
F_ST = ["dbxxx.rs key_piece_size_stats", "dbxxx.rs value_piece_size_stats", "dbxxx.rs key_length_stats", "dbxxx.rs value_length_stats", "filedb/mod.rs RecordSizeStats::touch_size", "filedb/mod.rs LengthStats::touch_length"]
M_STATS = [M("m_stats_%s_bytes" % n, "%s over a store whose slot walk yields every slot (live or free) once: counts exactly the live non-empty records; read-only" % d, functions=F_ST, cap=900)
           for n, d in [("klen", "key_length_stats"), ("vlen", "value_length_stats"), ("ksize", "key_piece_size_stats"), ("vsize", "value_piece_size_stats")]]
M_2STEP = M("m_put_get_del_bytes", "cross-check of the induction: put, get of the same and of another key, delete, includes_key as FOUR real calls in a row on one handle from an arbitrary valid state agree with the ideal map; I2 afterwards", functions=F_PUT + F_GET + F_DEL, tier="thorough", cap=3000)
M_SETUP = M("m_setup_reachable", "vacuity twin: the constructed pre-state is satisfiable in its largest shapes and satisfies I2", cap=300)


# ---------------------------------------------------------------------------- layer B
B_TB = ["layer B runs the real crate (vfile.rs, htx.rs, header code of key.rs/val.rs, open_with_params) over an in-memory byte model of rabuf::BufFile patched in with [patch.crates-io] (kani/rabuf_model: zero-fill, seek past the end extends, reads past the end return zeros, flush/sync counters, read-only latch, write-back fault); the model is validated natively against the real rabuf (bin/validate models)",
        "std::fs::OpenOptions::open, alloc::fmt::format and <io::Error as Debug>::fmt are stubbed in the open_with_params harnesses (no file system under CBMC)"]
B_ASSUME = ["table images: every byte a solver variable except the three pinned header words; the occupancy bitmap agrees with the bucket heads (the part of the representation invariant that htx.rs itself maintains, shown preserved by b_bucket_*)"]
F_SCAN = ["htx.rs VarFile::next_key_piece_offset", "vfile.rs seek_from_start / seek_back_size / read_u64_le / read_u8"]
F_BKT = ["htx.rs VarFile::write_key_piece_offset", "htx.rs VarFile::read_key_piece_offset"]


B_MEM = {"b_scan_128_at56": 6, "b_scan_128_at120": 6, "b_scan_128_at0": 6, "b_scan_128_at64": 6, "b_scan_256_at184": 12, "b_scan_g128": 8, "b_scan_g256": 14, "b_bucket_n256": 14, "b_scan_g64": 5, "b_scan_n16": 4}


def B(name, what, cap=600, tier="quick", stub=False, **kw):
    kw.setdefault("assumptions", B_ASSUME)
    # harnesses that write or check long byte runs are built with the buffer model's memcpy mode
    if name.startswith(("b_hdr_", "b_open_", "b_zero_to_offset_long")):
        kw.setdefault("features", ["bulk"])
    return H("b", name, what, tier=tier, cap=cap, mem_gb=24, stubbing=True, mem_est=B_MEM.get(name, 3), **kw)


W_SCAN = "bucket scan contract with a universally quantified bucket j: next_key_piece_offset(n, idx) returns (r+1, head[r]) for the least non-empty bucket r >= idx, else (>= n, 0); no arithmetic overflow, read-only, file length unchanged, all three loops terminate (unwinding assertions)"
B_SCAN_SMALL = [B("b_scan_n%d" % n, W_SCAN, bounds="table of %d buckets, every byte of table and bitmap symbolic, EVERY start index" % n, functions=F_SCAN, cap=400, may_unsat=["hit found through the bitmap"] if n <= 8 else None) for n in (1, 2, 4, 8, 16)]
B_SCAN_G = {n: B("b_scan_g%d" % n, W_SCAN, bounds="table of %d buckets, every byte symbolic, every group-aligned start index (the unaligned path is the plain linear loop covered for n <= 16)" % n, functions=F_SCAN,
                 cap=cap, tier=tier) for n, cap, tier in [(32, 600, "quick"), (64, 900, "thorough"), (128, 1200, "thorough"), (256, 2400, "thorough")]}
B_SCAN_AT = {k: B("b_scan_%s" % k, W_SCAN, bounds="table of %s buckets, every byte symbolic, start index %s (where the loops of the scan hand over to each other)" % (k.split("_")[0], k.split("at")[1]), functions=F_SCAN, cap=900, tier=t)
             for k, t in [("128_at56", "quick"), ("128_at120", "quick"), ("128_at0", "thorough"), ("128_at64", "thorough"), ("256_at184", "thorough")]}
W_BKT = "write_key_piece_offset(n, idx, off): bucket idx holds off as 8 bytes LE at 128 + 8*idx, its occupancy bit = (off != 0), every other bucket, every other bit, the header and the file length unchanged (universally quantified byte i)"
B_BUCKET = {n: B("b_bucket_n%d" % n, W_BKT, bounds="table of %d buckets, all bytes, index and new head symbolic" % n, functions=F_BKT, cap=cap, tier=tier, may_unsat=["highest bit of a bitmap byte"] if n < 8 else None) for n, cap, tier in [(1, 300, "quick"), (4, 300, "quick"), (8, 300, "quick"), (16, 400, "quick"), (64, 900, "thorough"), (256, 1800, "thorough")]}
B_API = [B("b_htx_api_n%d" % n, "HtxFile API: a key's bucket is hash mod n (placement stability), item count is the u64 at 24 and counts up / down (saturating at 0), nothing else of the header moves",
           bounds="table of %d buckets, symbolic 64-bit hash" % n, functions=["htx.rs HtxFile::read_key_piece_offset", "htx.rs HtxFile::write_key_piece_offset", "htx.rs write_item_count_up/down", "htx.rs read_item_count"], cap=900, tier=t) for n, t in [(2, "quick"), (8, "quick"), (64, "thorough")]]
B_FILL = [B("b_fill_n%d" % n, "htx_filling_rate_per_mill = (number of non-empty buckets, per mille of n); read-only, file not extended", bounds="table of %d buckets, all bytes symbolic" % n, functions=["htx.rs HtxFile::htx_filling_rate_per_mill"], cap=600, tier=t)
          for n, t in [(2, "quick"), (8, "quick"), (16, "thorough")]]
B_HDRW = [B("b_hdr_write_" + f, "header writer of the %s file defines every header byte from arbitrary stale bytes as the documented layout; the crate's own checker accepts it" % f, bounds="all 2^64 type signatures (and bucket counts)",
            functions=["%s.rs write_*_init_header" % f, "%s.rs check_*_header" % f], cap=300) for f in ("htx", "key", "val")]
REJ = dict(mode="reject", allowed_fail=[r"invalid header signature1", r"invalid header signature2"], covers_unsat=["foreign header accepted"])
B_HDRR = [B("b_hdr_reject_" + f, "a %s file whose 16 signature bytes are not exactly (format signature, expected type signature) is refused by the checker before any other field is looked at; nothing is written (read-only latch)" % f,
            bounds="ALL 2^128 foreign signature pairs x all expected signatures", functions=["%s.rs check_*_header" % f], cap=300, **REJ) for f in ("htx", "key", "val")]
B_OPENR = [B("b_open_reject_" + f, "the real %s open_with_params refuses a file with a foreign signature pair (no handle is produced, nothing written)" % f, bounds="ALL foreign signature pairs", functions=["%s.rs open_with_params" % f], cap=400, **REJ)
           for f in ("htx", "key", "val")]
B_OPEN_NEW = B("b_open_htx_new", "creating a table: bucket count = documented function of the parameters (next power of two; capacity: >= 8, <= 8/9 full), header stores THAT count, length 128+8n+n/8, table+bitmap zero, handle caches the same count, fixed buffers get >= 2 chunks",
               bounds="BucketsSize(0..16), Capacity(1..14), every buffer-size parameter (Size(u32) / PerMille(u16) / Auto)", functions=["htx.rs HtxFile::open_with_params", "htx.rs capacity_to_buckets_size", "htx.rs write_htxf_init_header"], cap=600)
B_OPEN_EX = [B("b_open_htx_existing_n%d" % n, "opening an EXISTING table: parameters (any bucket parameter, any buffer parameter) are ignored in favour of the stored count, nothing is written, lookups address hash mod stored n",
               bounds="stored table of %d buckets, all bytes symbolic; BucketsSize(u64) / Capacity(< 2^60) / Default" % n, functions=["htx.rs HtxFile::open_with_params", "htx.rs check_htxf_header"], cap=600) for n in (8, 2)]
B_OPEN_DAT = [B("b_open_%s_%s" % (f, e), "%s file %s: %s" % (f, e, "documented 192-byte header written, fixed buffers get >= 2 chunks" if e == "new" else "header checked, nothing written"), bounds="all type signatures, every buffer-size parameter",
                functions=["%s.rs open_with_params" % f], cap=400) for f in ("key", "val") for e in ("new", "existing")]
B_SYNC = B("b_sync_plumbing", "VarFile::flush / sync_all / sync_data reach the buffer flush and the matching OS sync in the order write < flush < sync; a failing write-back is handed to the caller and leaves the buffer dirty", cap=300,
           functions=["vfile.rs VarFile::flush", "vfile.rs VarFile::sync_all", "vfile.rs VarFile::sync_data"])
B_WRAP = [B("b_wrap_sync_" + f, "%s file: the per-file flush / sync_all / sync_data wrappers write back whatever is pending, whatever the file holds (also an empty table), and reach the matching OS sync" % f, cap=300,
            functions=["%s.rs flush / sync_all / sync_data of the file handle" % f]) for f in ("htx", "key", "val")]
B_CODEC = [B("b_codec_" + k, "field codec %s: bytes = documented vu64 pattern of value(/8), width = encoded length, no other byte touched, reads back, reader stops behind the field" % k, bounds="ALL values of the field type", cap=400,
             functions=["vfile.rs write_/read_ %s" % k, "vu64::io"]) for k in ("offset", "size", "keylen", "vallen", "free_link")]
B_ZEROL = B("b_zero_to_offset_long", "write_zero_to_offset over runs up to 2.3 KiB from arbitrary stale bytes: every byte of [pos, target) zero, nothing else changed, position and length right", cap=600, bounds="image of 2400 symbolic bytes, position and target symbolic", functions=["vfile.rs write_zero_to_offset"])
B_ZERO = B("b_zero_to_offset", "write_zero_to_offset zeroes exactly [pos, target), never beyond, no-op when target <= pos", cap=300, functions=["vfile.rs write_zero_to_offset"])


# ---------------------------------------------------------------------------- layer A
A_TB = ["layer A runs the real default methods of trait DbXxx (src/lib.rs) on an ideal 4-entry map that implements the object-safe primitives and logs the primitive calls it receives",
        "String::from_utf8_lossy is replaced (kani::stub) by a non-identity ASCII marker decoding in the *_string harnesses: std's UTF-8 validation exhausts 60 GB under CBMC; what is decided is the composition done by lib.rs (which value is decoded and where it lands), not std"]


def A(name, what, bounds, fn, cap=900, tier="quick"):
    return H("a", name, what, tier=tier, cap=cap, mem_gb=16, stubbing=True, bounds=bounds, functions=fn)


A_ALL = [
    A("a_bulk_get3", "bulk_get: position i holds what get of the i-th key returns, map unchanged", "ANY batch of 3 u64 keys (all orders, repeats allowed) on any map of <= 3 entries with values of 0..2 bytes", ["lib.rs DbXxx::bulk_get", "lib.rs DbXxx::get"]),
    A("a_bulk_delete3", "bulk_delete: position i holds what delete of the i-th key returns; exactly the keys of the batch are gone", "any batch of 3 pairwise different u64 keys, any map of <= 3 entries", ["lib.rs DbXxx::bulk_delete", "lib.rs DbXxx::delete"]),
    A("a_bulk_put3", "bulk_put leaves the map exactly as the individual puts would; every pair put once", "any batch of 3 pairs with pairwise different keys, values 0..2 bytes", ["lib.rs DbXxx::bulk_put", "lib.rs DbXxx::put"]),
    A("a_bulk_put_string2", "bulk_put_string = individual puts of the UTF-8 bytes", "any batch of 2 pairs, ASCII strings of 0..2 bytes", ["lib.rs DbXxx::bulk_put_string"]),
    A("a_bulk_get_string2", "bulk_get_string = bulk_get composed with the decoding, position by position", "any batch of 2 keys", ["lib.rs DbXxx::bulk_get_string"]),
    A("a_put_from_iter3", "put_from_iter applies the pairs in iteration order (the i-th primitive put is the i-th pair; repeated keys: last wins)", "any 3 pairs, repeats allowed", ["lib.rs DbXxx::put_from_iter"]),
    A("a_scalar_and_string", "get / includes_key / get_string / put_string / delete_string / is_empty = the primitive of the converted key composed with UTF-8 encoding / decoding", "any key, any map of <= 2 entries", ["lib.rs DbXxx::get", "lib.rs DbXxx::get_string", "lib.rs DbXxx::put_string", "lib.rs DbXxx::delete_string", "lib.rs DbXxx::includes_key", "lib.rs DbXxxBase::is_empty"]),
]


# ---------------------------------------------------------------------------- layer R
R_TB = ["in the harnesses restricted to small slots (r_*_small_*) the first-fit search of the large free list is replaced (kani::stub) by a failing assertion: 'unreachable' is checked, not assumed (without it CBMC unrolls that loop on the infeasible path: 367 s -> 111 s)",
        "layer R runs the REAL key.rs, val.rs, piece.rs and semtype.rs (re-read from /repo at every build via #[path]) over the slot-structured model of vfile::VarFile (kani/r/src/filedb/inner/vfile_model.rs): header words + <= 4 slots at 8-aligned offsets, each slot = the sequence of typed fields last written into it (Size, Len, Bytes|Link, Off, Off, Zero-to) with the real vu64 field widths; byte-level codec correctness is decided separately (b_codec_*)",
        "PieceMgr::roundup, PieceMgr::free_piece_list_offset_of_header and the is_valid_key/is_valid_value table loops are replaced (kani::stub) by the loop-free functions of the frozen spec; harnesses k_class_roundup and k_class_lists show for ALL sizes that the real functions are those functions",
        "an access that does not fit the sequential write discipline of the model fails a check whose message starts with MODEL-LIMIT: and makes the run inconclusive, never a violation"]
R_ASSUME = ["level R: pre-state = any image of 2..4 slots that satisfies I1 (slots tile [192, end), complete used or free records, free records on the list of their size class); slot sizes = any of the 15 small classes or 1024 + 128k (k <= 24); payload lengths <= 1300 bytes (key records <= 300), first 3 payload bytes tracked; offsets stored in key records: any 8-aligned value < 2^56"]
R_I1 = "I1 afterwards: every slot a complete record inside its bounds and zero-padded to exactly its end, slots tile the file, every free record on exactly the list of its size class, no slot linked twice"


R_MEM = {"r_key_rewrite_small_bfree": 9, "r_key_new_small_bfree": 9, "r_val_rewrite_small_bfree": 4, "r_val_rewrite_small_bused": 4, "r_val_new_small_bfree": 4, "r_val_rewrite_bfree_c": 11, "r_val_rewrite_bused_c": 11, "r_val_new_bfree_c": 9, "r_key_rewrite_bfree": 16, "r_key_rewrite_bused": 16, "r_key_new_bfree": 13, "r_key_new_bused": 13, "r_val_rewrite_bfree": 11, "r_val_rewrite_bused": 11, "r_val_new_bfree": 9, "r_val_new_bused": 9, "r_pop_large3": 5}


def R(name, what, fn, cap=1500, tier="quick", may_unsat=None):
    return H("r", name, what + "; " + R_I1, tier=tier, cap=cap, mem_gb=24, stubbing=True, extra=NOREACH, bounds=R_ASSUME[0], functions=fn, assumptions=R_ASSUME, may_unsat=may_unsat, mem_est=R_MEM.get(name, 3))


F_POP = ["piece.rs VarFile::pop_free_piece_list", "piece.rs VarFile::pop_free_piece_list_large", "piece.rs read_free_piece_size_next", "piece.rs read/write_free_piece_offset_on_header", "vfile.rs write_piece_clear (mirrored in the model)"]
R_POPL = R("r_pop_large3", "first-fit pop from the shared large list holding 0..3 free slots of solver-chosen sizes in ANY list order: returns the first entry that is big enough, unlinks exactly it (head, middle or last), keeps the order of the rest, touches nothing else", F_POP, cap=1500)
R_POPS = R("r_pop_small", "pop from a small class list (0..2 entries, any order, another class's list present): hands out the head of exactly that class and advances the head", F_POP, cap=900)
R_PUSH = R("r_push", "push: the slot becomes head of the list of ITS size, linked to the old head, fully rewritten as a free record (size, zero length, link, zeros); other records untouched", ["piece.rs VarFile::push_free_piece_list"], cap=600)
R_COUNT = R("r_count", "count_of_free_piece_list = number of slots on that list, for lists of 0..3 slots incl. large slots of different sizes on the shared list; read-only", ["piece.rs VarFile::count_of_free_piece_list", "piece.rs read_free_piece_size_next"], cap=600)
F_VW = ["val.rs VarFileValueCache::write_piece", "val.rs ValuePiece::dat_write_piece_one", "val.rs ValuePiece::encoded_piece_size", "val.rs ValueFile::add_value_piece", "val.rs read_piece_only_value", "val.rs read_piece_only_value_length"] + F_POP + ["piece.rs VarFile::push_free_piece_list"]
W_WR = "%s with a solver-chosen length next to a free-or-used slot and a used neighbour: the record stays in place iff it fits its slot, else reuses a suitable free slot (small: exact class; large: first fit, keeping the slot's own size) if there is one, else is appended with the slot size of the released sizing rule (file grows only then); documented field order; record never exceeds its slot; old slot of a moved record freed; neighbours untouched; reads back"
NOFREE = ["reused", "old slot pushed onto a non-empty list"]
R_VREW_L = [R("r_val_rewrite_bfree", W_WR % "ValueFile::write_piece of an existing record (slot B free)", F_VW, cap=2400, tier="thorough"), R("r_val_rewrite_bused", W_WR % "ValueFile::write_piece of an existing record (slot B used)", F_VW, cap=2400, tier="thorough", may_unsat=NOFREE)]
R_VNEW_L = [R("r_val_new_bfree", W_WR % "ValueFile::add_value_piece (slot B free)", F_VW, cap=2400, tier="thorough", may_unsat=["in place", "old slot pushed onto a non-empty list"]),
            R("r_val_new_bused", W_WR % "ValueFile::add_value_piece (slot B used)", F_VW, cap=2400, tier="thorough", may_unsat=["in place"] + NOFREE)]
F_KW = ["key.rs VarFileKeyCache::write_piece", "key.rs KeyPiece::dat_write_piece_one", "key.rs KeyPiece::encoded_piece_size", "key.rs KeyFile::add_key_piece", "key.rs read_piece", "key.rs read_piece_only_value_offset", "key.rs read_piece_only_key_length"] + F_POP + ["piece.rs VarFile::push_free_piece_list"]
W_WRS = W_WR + " - slots of the 10 smallest classes (16..256 bytes) and lengths up to 250 (every small class boundary and the 1 -> 2 byte length encoding are crossed; the large class is covered by r_pop_large3 and the unrestricted variants of the thorough tier)"
R_VREW_S = [R("r_val_rewrite_small_bfree", W_WRS % "ValueFile::write_piece of an existing record (slot B free)", F_VW, cap=1500, may_unsat=["bigger large free slot reused"]), R("r_val_rewrite_small_bused", W_WRS % "ValueFile::write_piece of an existing record (slot B used)", F_VW, cap=1500, may_unsat=NOFREE + ["bigger large free slot reused"])]
R_VNEW_S = R("r_val_new_small_bfree", W_WRS % "ValueFile::add_value_piece (slot B free)", F_VW, cap=1500, tier="thorough", may_unsat=["in place", "old slot pushed onto a non-empty list", "bigger large free slot reused"])
R_KEY_S = [R("r_key_rewrite_small_bfree", W_WRS % "KeyFile::write_piece of an existing key record with new value offset / chain link (slot B free, used slot C)", F_KW, cap=2400, tier="thorough", may_unsat=["bigger large free slot reused"]),
           R("r_key_new_small_bfree", W_WRS % "KeyFile::add_key_piece (slot B free, used slot C)", F_KW, cap=2400, tier="thorough", may_unsat=["in place", "moved: offsets needed a bigger slot", "bigger large free slot reused"])]
R_V3_L = [R("r_val_rewrite_bfree_c", W_WR % "ValueFile::write_piece of an existing record (slot B free, a third used slot C behind it)", F_VW, cap=3000, tier="thorough"),
          R("r_val_rewrite_bused_c", W_WR % "ValueFile::write_piece of an existing record (slots B and C used)", F_VW, cap=3000, tier="thorough", may_unsat=NOFREE),
          R("r_val_new_bfree_c", W_WR % "ValueFile::add_value_piece (slot B free, used slot C behind it)", F_VW, cap=3000, tier="thorough", may_unsat=["in place", "old slot pushed onto a non-empty list"])]
R_KREW_L = [R("r_key_rewrite_bfree", W_WR % "KeyFile::write_piece of an existing key record with new value offset / chain link (slot B free)", F_KW, cap=3000, tier="thorough"),
            R("r_key_rewrite_bused", W_WR % "KeyFile::write_piece of an existing key record (slot B used)", F_KW, cap=3000, tier="thorough", may_unsat=NOFREE)]
R_KNEW_L = [R("r_key_new_bfree", W_WR % "KeyFile::add_key_piece (slot B free)", F_KW, cap=3000, tier="thorough", may_unsat=["in place", "moved: offsets needed a bigger slot"]),
            R("r_key_new_bused", W_WR % "KeyFile::add_key_piece (slot B used)", F_KW, cap=3000, tier="thorough", may_unsat=["in place", "moved: offsets needed a bigger slot"] + NOFREE)]
R_VDEL = R("r_val_delete", "delete_piece: the slot goes onto the free list of its own size as its head, file length unchanged", ["val.rs VarFileValueCache::delete_piece", "piece.rs VarFile::push_free_piece_list"], cap=600)
R_KDW = R("r_key_delete_walk", "key file: delete_piece puts the slot on the list of its size as head, neighbours untouched; the slot walk then yields the freed slot (key length 0) and the live one once each and ends; readers return size and length", ["key.rs VarFileKeyCache::delete_piece", "key.rs PieceA for KeyFile", "piece.rs PieceOffsetIter", "key.rs read_piece_only_key_length", "key.rs read_piece_only_size"], cap=600)
R_WALK = R("r_val_walk", "sequential slot walk (PieceOffsetIter behind the slot-size statistics) over 0..3 tiled slots, free or used: every slot exactly once in address order, then None; terminates; read-only", ["piece.rs PieceOffsetIter::next_piece_offset", "val.rs PieceA for ValueFile"], cap=600)

PROPS = {}


def quick(h):
    """the same harness, scheduled in both tiers"""
    import copy
    c = copy.copy(h)
    c.tier = "quick"
    return c


def thorough(h):
    """the same harness, scheduled in the thorough tier only"""
    import copy
    c = copy.copy(h)
    c.tier = "thorough"
    return c


def prop(pid, harnesses, **kw):
    kw["harnesses"] = harnesses
    kw.setdefault("trusted_base", TB_COMMON)
    kw["assumptions"] = ASSUME_COMMON + kw.get("assumptions", [])
    fs = []
    for h in harnesses:
        for f in h.functions:
            if f not in fs:
                fs.append(f)
    kw.setdefault("functions", fs)
    PROPS[pid] = kw


prop("C09_old", [K_VSLOT, K_VSLOT_2G, K_KSLOT, K_KSLOT_16M, K_ROUNDUP],
     bounds="value length <= 2^24 (quick) / 2^31-16 (thorough); key length <= 2^16 / 2^24; offsets < 2^56 / 2^64",
     outside=["lengths >= 2^31 (u32 arithmetic of the crate wraps; beyond the property's 'at least 16 MiB')"])


R_M = "M-harness rule: one inductive step of the real dbxxx.rs from an arbitrary valid state; see DESIGN 2."
prop("C01", [MB["put_new"], MB["put_over"], MB["del_hit"], MB["del_miss"], MB["lookup"], M_SETUP, R_POPL, R_POPS, R_PUSH, R_VDEL, R_KDW, M_2STEP, M_BIG["put_new"], M_BIG["put_over"], M_BIG["del_hit"], M_BIG["lookup"]] + [thorough(h) for h in R_VREW_L + R_VNEW_L] + R_KREW_L + R_KNEW_L + [M_KT("vu64", "thorough")[k] for k in ("put_new", "del_miss", "lookup")] + [M_KT("string", "thorough")[k] for k in ("put_new", "put_over", "del_hit")],
     trusted_base=TB_COMMON + M_TB + R_TB, rule=R_M + " The record-store contract that layer M assumes is discharged by the layer-R harnesses listed with it.", bounds=M_BOUNDS + "; record layer: " + R_ASSUME[0],
     outside=["histories that need more than 3 simultaneously live entries in ONE inductive step (longer histories are covered by the induction)", "rabuf's chunking and eviction (dependency)", "I/O errors of a sick file system", "values/keys longer than the tracked bytes at level M: lengths up to 2^24/2^31 are decided at levels K and R"])
prop("C08", [MB["put_over"], quick(M_BIG["del_hit"]), K_KGROW, M_BIG["put_over"], thorough(MB["del_hit"]), thorough(MV["put_over"]), thorough(MV["del_hit"]), thorough(MS["put_over"])],
     trusted_base=TB_COMMON + M_TB, rule=R_M, bounds=M_BOUNDS, outside=["relocation cascades longer than the chain bound (2 at quick, 3 at thorough): the relink loop is verified for every chain of that length, longer chains repeat the same step"])
prop("C03", M_FLUSH + [B_SYNC] + B_WRAP, trusted_base=TB_COMMON + M_TB + B_TB, rule=R_M, bounds=M_BOUNDS,
     outside=["database-level FileDb::sync_all/sync_data over the name registries (BTreeMap<String,_>: see C11)", "what fsync really does; that rabuf's flush writes every dirty chunk (dependency; its byte model is validated natively)", "SIGKILL timing"])
prop("C16", M_FAULT + [B_SYNC] + B_WRAP, trusted_base=TB_COMMON + M_TB + B_TB, rule=R_M, bounds=M_BOUNDS,
     outside=["that a rabuf chunk stays dirty when its write fails, RLIMIT_FSIZE / ENOSPC behaviour of the OS (dependency and kernel): the abyssiniandb part - error propagation and the dirty flag - is what is decided"])

R_B = "B-harness rule: the real byte-level function on a symbolic file image."
prop("C04", list(M_ITER.values()) + [B_SCAN_SMALL[1], B_SCAN_SMALL[3], B_SCAN_SMALL[4], B_SCAN_G[32], B_SCAN_AT["128_at56"], B_SCAN_AT["128_at120"], thorough(M_ITER_X[1]), thorough(M_ITER_X[2]), thorough(B_SCAN_SMALL[0]), thorough(B_SCAN_SMALL[2]), B_SCAN_AT["128_at0"], B_SCAN_AT["128_at64"], B_SCAN_AT["256_at184"], B_SCAN_G[64], B_SCAN_G[128], B_SCAN_G[256], M_ITER_X[0], M_ITER_X[3], M_BIG["iter_mut"]],
     trusted_base=TB_COMMON + M_TB + B_TB, rule=R_M + " " + R_B, bounds="iterators: " + M_BOUNDS + "; bucket scan: tables of 2, 8, 16 (thorough also 1, 4) buckets with every start index, 32 (thorough: 64..256) buckets with every group-aligned start index, 128 buckets from the start indices 56 and 120 (thorough: 0, 64; 256 from 184), all table bytes symbolic",
     outside=["modification during a traversal (excluded by the property)", "tables of more than 256 buckets (512 buckets with every aligned start index ran out of 24 GB after 45 min and is not registered): the scan code depends on n only through the loop bounds idx + 8 < n and idx < n and the 64-bucket stride, all of which are crossed at 128..256"])
prop("C02", B_OPEN_EX + [B_OPEN_NEW] + B_OPEN_DAT + B_HDRW + [MB["lookup"], K_HASH()[0], thorough(MV["lookup"]), M_2STEP],
     trusted_base=TB_COMMON + M_TB + B_TB, rule=R_B, bounds="stored tables of 2 and 8 buckets with symbolic contents; all parameter values",
     outside=["that rabuf's Drop writes every dirty chunk and that the OS returns what was written (dependency / kernel)", "reopen in another process", "the Rc handle graph of FileDb (see C11)",
              "argument: reopening = a fresh FileDbXxxInner over the same three files; every M-harness builds its handle freshly over an ARBITRARY valid store state and leaves such a state behind, so nothing a handle remembers matters except the cached bucket count, which is decided here"])
prop("C07", [K_CAP, K_CAP0, B_OPEN_NEW] + B_OPEN_EX + B_OPEN_DAT + [B_SCAN_SMALL[0], B_SCAN_SMALL[1], B_SCAN_SMALL[2], B_BUCKET[1], B_BUCKET[4], B_API[0], MB["put_new"], MB["lookup"], thorough(MV["put_new"])],
     trusted_base=TB_COMMON + M_TB + B_TB, rule=R_B, bounds="capacities < 2^60; bucket counts 1..16 at the byte level, 1 and 2 at map level (the map logic sees n only through hash mod n)",
     outside=["that EVICTION inside rabuf is transparent (dependency code over real files: hashbrown + unsafe chunk pointers; symbolic execution did not finish in 15 min) - not applicable to this technique; what is decided is that the crate hands rabuf a legal configuration (>= 2 chunks) for every Size(v)",
              "the alternative cargo feature sets (each is a different program)"])
prop("C13", [K_SIGD, K_SIGUV, K_SIGV] + B_HDRR + B_OPENR, trusted_base=TB_COMMON + B_TB, rule=R_B, bounds="all 2^128 signature pairs",
     outside=["the create(true) side effect of opening a MISSING file of a partially present map"])
prop("C12", K_HASH() + [K_VU64, K_SIGV, K_LISTS, K_ROUNDUP] + B_CODEC + B_HDRW + [B_API[0], B_API[1], B_BUCKET[8], B_OPEN_NEW, K_KSLOT, K_VSLOT],
     trusted_base=TB_COMMON + B_TB, rule="differential: current code vs. the frozen format specification /verif/spec/format.rs, symbolic inputs", bounds="keys up to 17 bytes; all u64; all field values",
     outside=["golden directories opened through the real file system under Kani (no file system there); the frozen spec itself is validated natively against files written by the pinned build (bin/validate spec)", "other cargo feature sets' formats"])

prop("C14", A_ALL, trusted_base=TB_COMMON + A_TB, rule="A-harness rule: the real default method on an ideal map with a symbolic batch; post-condition through a universally quantified probe key",
     bounds="batches of 3 (2 for the string variants); u64 keys (KT = DbU64); values of 0..2 bytes",
     outside=["batches longer than 3: bulk_* sort the batch with the standard library's sort (insertion sort below 20 elements, so no other code path up to 20) and then pop and call the primitive - the position bookkeeping is what is decided",
              "the exact behaviour of String::from_utf8_lossy (std)", "KT other than DbU64: the default methods are generic and use the key only through From<&Q> and Ord of Q"])

R_R = "R-harness rule: one real record-level call from an arbitrary I1 image built from solver variables."
del PROPS["C09_old"]
prop("C06", [R_POPL, R_POPS, R_PUSH, R_VDEL, R_KDW] + R_VREW_S + [R_VNEW_S] + R_VREW_L + [R_WALK, K_ROUNDUP, K_LISTS] + R_VNEW_L + R_KREW_L + R_KNEW_L + R_V3_L + R_KEY_S + [MB["del_hit"]],
     trusted_base=TB_COMMON + R_TB + M_TB, rule=R_R, bounds=R_ASSUME[0],
     outside=["'file size bounded for a bounded live set' follows from the per-call rule (the file grows only if no suitable free slot exists) by a counting argument in DESIGN 4 C06 (prose)", "fragmentation behaviour of first fit on the large list beyond the rule itself",
              "free lists longer than 3 entries in one inductive step"])
prop("C09", [K_VSLOT, K_KSLOT, K_ROUNDUP] + R_VREW_S + R_VREW_L + [B_ZERO, B_ZEROL, K_VSLOT_2G, K_KSLOT_16M] + [thorough(h) for h in R_VNEW_L] + R_KREW_L + R_KNEW_L + R_V3_L + R_KEY_S + [c for c in B_CODEC if c.name in ("b_codec_vallen", "b_codec_keylen", "b_codec_size")],
     trusted_base=TB_COMMON + R_TB + B_TB, rule=R_R,
     bounds="sizing: value length <= 2^24 (quick) / 2^31-16 (thorough), key length <= 2^16 / 2^24, offsets < 2^56 / 2^64; record writes with neighbours: lengths <= 1300 (keys 300)",
     outside=["lengths >= 2^31 (u32 arithmetic of the crate wraps; beyond the property's 'at least 16 MiB')", "payload bytes beyond the first 3 of a record at level R (the payload is one write_all_small call; its bytes are covered by the buffer model at level B)"])
K_TOUCH = [H("k", "k_touch_size", "RecordSizeStats::touch_size: the counts reported per value are the touches of that value", cap=300, bounds="any 3 touches", functions=["filedb/mod.rs RecordSizeStats::touch_size"]),
           H("k", "k_touch_length", "LengthStats::touch_length: same", cap=300, bounds="any 3 touches", functions=["filedb/mod.rs LengthStats::touch_length"])]
prop("C17", [R_COUNT, R_WALK, R_KDW] + B_FILL + M_STATS + K_TOUCH, trusted_base=TB_COMMON + R_TB + B_TB + M_TB, rule=R_R + " " + R_B + " " + R_M, bounds=R_ASSUME[0] + "; tables of 2, 8 (16) buckets; " + M_BOUNDS,
     outside=["keys_count_stats (returns an empty vector by construction)", "the buf_stats feature"])
prop("C05", [MS["put_new"], MS["put_over"], MS["del_hit"], B_BUCKET[8], B_BUCKET[16], B_API[1], R_VDEL, R_PUSH] + [thorough(h) for h in R_VREW_S + R_VREW_L] + [B_BUCKET[64], B_BUCKET[256]] + R_KREW_L + R_KNEW_L,
     trusted_base=TB_COMMON + M_TB + B_TB + R_TB, rule="C05 is the conjunction I1 (record files, layer R) and I2 (chains, count, bitmap, value ownership: layers M and B), each asserted after one real call from an arbitrary valid state by a checker that shares no code with the crate",
     bounds=M_BOUNDS + "; " + R_ASSUME[0] + "; tables of 8, 16 (64, 256) buckets", outside=["as C01 and C06"])
prop("C15", [MS["lookup"], MB["del_miss"], M_ITER_X[2], M_ITER["keys"]] + M_STATS[:2] + [B_SCAN_SMALL[3], B_SCAN_G[32], B_FILL[1], B_HDRR[0], R_COUNT, R_WALK, R_KDW, B_SCAN_AT["128_at120"], thorough(M_ITER["values"]), B_SCAN_G[128]],
     trusted_base=TB_COMMON + M_TB + B_TB + R_TB, rule="every read-only entry point is run under a read-only latch in the store / buffer / file model: any write, length change or extension by a seek beyond the end is an assertion failure at the offending call",
     bounds=M_BOUNDS + "; tables of 8, 32 (128) buckets; " + R_ASSUME[0],
     outside=["whether rabuf re-writes clean chunks (it does not mark chunks dirty on reads: read from its source, not checked)", "bulk_get (= get per key: C14 shows it calls only get)"])
prop("C18", B_HDRW + [R_PUSH, R_VDEL, R_POPS, B_ZERO, B_ZEROL, K_HASH()[0], MS["lookup"], R_VREW_S[0]] + [thorough(h) for h in R_VREW_L + R_VNEW_L] + R_KREW_L + R_KNEW_L,
     trusted_base=TB_COMMON + R_TB + B_TB, rule="determinism as non-interference: the code has no clock, randomness or unordered container of its own; what is decided is that every byte the crate leaves in a slot or header is a function of the call's arguments (I1: complete records, explicit zeros to the exact slot end, from ARBITRARY stale content), that placement has no hidden input, and that read-only calls write nothing (C15)",
     bounds=R_ASSUME[0], outside=["rabuf's flush order (it sorts chunk offsets; dependency)", "process / directory independence of the OS"])

prop("C10", K_INT + K_BYTES + [M_ITER_X[1], thorough(M_ITER["keys"])], trusted_base=TB_COMMON + M_TB, bounds="all 64-bit integers (pairs: 2^128); byte keys up to 8 bytes; iteration: " + M_BOUNDS,
     outside=["memcmp on byte keys longer than 8 bytes"])
PROPS["C15"]["harnesses"].append(thorough(A_ALL[0]))
