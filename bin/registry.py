"""Registry: which solver queries (Kani harnesses) decide which property, at which tier."""
from vlib import Harness as H

TB_COMMON = [
    "Kani 0.68.0 / CBMC 6.11.0 / CaDiCaL and rustc's MIR for the pinned Kani toolchain",
    "vu64 0.1.11 as compiled (its unsafe table lookup is executed symbolically, not modelled)",
    "the frozen format specification /verif/spec/format.rs (validated natively against files written by the real crate: bin/validate_spec)",
]
ASSUME_COMMON = [
    "64-bit little-endian target (usize = 8 bytes), default cargo features of abyssiniandb (vf_vu64, htx_bitmap, rabuf_default)",
    "dev-profile semantics as Kani models them: debug assertions and arithmetic-overflow checks ON",
]

# ---------------------------------------------------------------------------- layer K
K_VSLOT = H("k", "k_vslot_16m", "value record (real ValuePiece::encoded_piece_size + PieceMgr::roundup) never exceeds its slot, slot is a documented class, free record fits, in-place rewrite into any larger old slot fits",
            cap=120, bounds="ALL value lengths 0..2^24 (one symbolic u32), ALL old slot sizes", functions=["val.rs ValuePiece::encoded_piece_size", "piece.rs PieceMgr::roundup", "vu64::encoded_len"])
K_VSLOT_2G = H("k", "k_vslot_2g", "same as k_vslot_16m", tier="thorough", cap=300, bounds="ALL value lengths 0..2^31-16")
K_KSLOT = H("k", "k_kslot_64k", "key record (real KeyPiece::encoded_piece_size + roundup) never exceeds its slot although the crate estimates with enc(offset) and writes enc(offset/8)",
            cap=120, bounds="ALL key lengths 0..2^16, ALL 8-aligned value offsets and chain links < 2^56", functions=["key.rs KeyPiece::encoded_piece_size", "piece.rs PieceMgr::roundup"])
K_KSLOT_16M = H("k", "k_kslot_16m", "same as k_kslot_64k", tier="thorough", cap=300, bounds="ALL key lengths 0..2^24, ALL 8-aligned offsets < 2^64")
K_KGROW = H("k", "k_kslot_can_grow", "slot class of a key record is monotone in its two offsets; witnesses that a changed value offset / chain link alone can force a bigger class (relocation is reachable)",
            cap=120, bounds="key length <= 64, offsets < 2^40")
K_ROUNDUP = H("k", "k_class_roundup", "roundup: >= request, documented class, monotone, minimal, identical for key and value files", cap=120, bounds="ALL sizes 1..2^31",
              functions=["piece.rs PieceMgr::roundup"])
K_LISTS = H("k", "k_class_lists", "free-list head offset of every legal slot size is the documented one (push by actual size and pop by requested size agree); large = >= 1024", cap=120,
            bounds="ALL legal slot sizes (u32)", functions=["piece.rs PieceMgr::free_piece_list_offset_of_header", "piece.rs PieceMgr::is_large_piece_size"])
K_CAP = H("k", "k_capacity_to_buckets", "Capacity(c) -> power of two, >= 8, >= c, < 2x needed", cap=120, bounds="ALL capacities 1..2^60", functions=["htx.rs capacity_to_buckets_size"])
K_CAP0 = H("k", "k_capacity_zero_panics", "Capacity(0) panics as documented", cap=60, mode="panic")
K_INT = [H("k", "k_int_" + t, "%s <-> key: round trip, by-value = by-reference bytes, cmp_u8 Equal iff integers equal, equal keys hash equally, from_bytes(as_bytes) converts back" % t,
           cap=180, bounds="ALL 2^64 x 2^64 integer pairs", functions=["kt_db%s.rs From impls, cmp_u8, from_bytes" % t, "lib.rs HashValue::hash_value, MyHasher"]) for t in ["u64", "i64"]]
K_INT += [
    H("k", "k_int_vu64_roundtrip", "u64 -> DbVu64 -> u64 round trip; key bytes = documented vu64 pattern; from_bytes(as_bytes) converts back", cap=300, bounds="ALL u64", functions=["kt_dbvu64.rs From impls, from_bytes", "vu64::encode", "vu64::decode"]),
    H("k", "k_int_vu64_byref", "DbVu64: by-value and by-reference conversions give identical bytes", cap=300, bounds="ALL u64"),
    H("k", "k_int_vu64_eq", "DbVu64::cmp_u8 (decoding comparison) is Equal iff the integers are equal, and never fails to decode an encoded key", cap=300, bounds="ALL 2^64 x 2^64 pairs", functions=["kt_dbvu64.rs cmp_u8"]),
]
K_BYTES = [H("k", "k_bytes_db" + t, "Db%s: cmp_u8 Equal iff same length and bytes; from_bytes(as_bytes(k)) = k" % t.capitalize(), cap=180,
             bounds="ALL pairs of byte strings of length 0..8 (every byte value: prefixes, NULs, non-UTF-8)") for t in ["bytes", "string"]]
K_VU64 = H("k", "k_vu64_codec", "vu64::encode = documented bit pattern, encoded_len, decode(encode(v)) = v", cap=180, bounds="ALL u64", functions=["vu64::encode", "vu64::decode", "vu64::encoded_len", "vu64::decoded_len"])
K_SIGV = H("k", "k_sig_values", "the five type signatures are the released ones", cap=60)
K_SIGD = H("k", "k_sig_distinct", "type signatures are pairwise different (all pairs except u64/vu64, asserted separately)", cap=60)
K_SIGUV = H("k", "k_sig_u64_vs_vu64", "DbU64 and DbVu64 signatures differ", cap=60)


def K_HASH(tier_full="thorough"):
    out = []
    for t, mx in [("bytes", 17), ("string", 17), ("u64", 9), ("i64", 9), ("vu64", 9)]:
        out.append(H("k", "k_hash_db" + t, "hash_value of Db%s = released placement hash (length word, 8-byte big-endian words, x^=x>>12; x^=x<<25; x^=x>>27)" % t,
                     cap=300, bounds="ALL keys of length 0..%d" % mx, functions=["lib.rs HashValue::hash_value", "lib.rs MyHasher::write", "lib.rs _xorshift64s", "derive(Hash) of the key newtype"]))
    return out


PROPS = {}


def prop(pid, harnesses, **kw):
    kw["harnesses"] = harnesses
    kw.setdefault("trusted_base", TB_COMMON)
    kw["assumptions"] = ASSUME_COMMON + kw.get("assumptions", [])
    fs = []
    for h in harnesses:
        for f in h.functions:
            if f not in fs:
                fs.append(f)
    kw.setdefault("functions", fs)
    PROPS[pid] = kw


prop("C09", [K_VSLOT, K_VSLOT_2G, K_KSLOT, K_KSLOT_16M, K_ROUNDUP],
     bounds="value length <= 2^24 (quick) / 2^31-16 (thorough); key length <= 2^16 / 2^24; offsets < 2^56 / 2^64",
     outside=["lengths >= 2^31 (u32 arithmetic of the crate wraps; beyond the property's 'at least 16 MiB')"])
prop("C10", K_INT + K_BYTES, bounds="all 64-bit integers; byte keys up to 8 bytes", outside=["memcmp on byte keys longer than 8 bytes"])
prop("C12", K_HASH() + [K_VU64, K_SIGV], bounds="keys up to 17 bytes; all u64", outside=[])
prop("C13", [K_SIGD, K_SIGUV, K_SIGV], bounds="", outside=[])
prop("C07", [K_CAP, K_CAP0], bounds="", outside=[])
prop("C06", [K_ROUNDUP, K_LISTS], bounds="", outside=[])
