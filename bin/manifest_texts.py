TECH = "bounded model checking of the real Rust code (Kani/CBMC, SAT): "
NOTE = ("Bounded result: holds for every input inside the bounds listed in evidence (coverage.bounds, per-harness bounds); nothing is claimed outside. "
        "Trusted: Kani/CBMC/CaDiCaL, rustc MIR, the frozen format spec, the hand-written models below the layer under the solver (validated natively against the real crate), and the prose induction of DESIGN 2.")
CHECKS = {
 "C06": {"design_ref": "DESIGN 4 C06", "technique": TECH + "symbolic sizes through the real size-class kernels",
         "text": "All slot sizes up to 2^31 are solver variables: rounding is monotone/minimal and lands on a documented class, and push (by actual size) and pop (by requested size) address the same free-list head.", "note": NOTE},
 "C07": {"design_ref": "DESIGN 4 C07", "technique": TECH + "symbolic parameters through the real parameter-handling code",
         "text": "Capacity -> bucket count for every capacity below 2^60 (power of two, >= 8, >= capacity), Capacity(0) panics as documented.", "note": NOTE},
 "C09": {"design_ref": "DESIGN 4 C09", "technique": TECH + "one symbolic length/offset vector through the real sizing functions",
         "text": "For EVERY value length up to 2^24 (thorough 2^31-16) and every key length up to 2^16 (2^24) with every pair of 8-aligned offsets the solver shows the encoded record (as written, with offset/8 fields) fits the slot the crate picks, also when rewritten in place into an older larger slot.", "note": NOTE},
 "C10": {"design_ref": "DESIGN 4 C10", "technique": TECH + "full 64-bit symbolic integers / symbolic byte strings through the real conversions and comparisons",
         "text": "Round trips, by-value/by-reference agreement and 'same entry iff equal' for all 2^64 integers (pairs: 2^128) of the three integer key types; byte-string equality for all pairs of strings up to 8 bytes.", "note": NOTE},
 "C12": {"design_ref": "DESIGN 4 C12", "technique": TECH + "differential harness: current code vs. a frozen format specification, symbolic inputs",
         "text": "Placement hash of all five key types equals the released hash for every key up to 17 bytes; vu64 bytes equal the documented pattern for all u64; type signatures are the released ones.", "note": NOTE},
 "C13": {"design_ref": "DESIGN 4 C13", "technique": TECH + "symbolic signature bytes through the real header checkers",
         "text": "Pairwise distinctness of the type signatures (the u64/vu64 collision is a recorded finding).", "note": NOTE},
}
MTECH = TECH + "one inductive step of the real map logic (dbxxx.rs re-linked against abstract record stores) from an arbitrary valid state built from solver variables; ideal-map oracle + representation invariant"
CHECKS.update({
 "C01": {"design_ref": "DESIGN 4 C01", "technique": MTECH,
         "text": "Every put / get / delete / includes_key / len / is_empty call of the real dbxxx.rs, started from ANY valid state within the structure bounds (chain order, bucket, record addresses and hence offset widths, slot sizes, key and value bytes all solver variables), returns what an ideal map returns, leaves every other entry alone, keeps the representation invariant and neither panics nor loops; by induction this covers call histories of any length over states within the bounds.", "note": NOTE},
 "C08": {"design_ref": "DESIGN 4 C08", "technique": MTECH,
         "text": "Overwrite and delete with the record stores relocating exactly when the released sizing rule demands it: the affected key first/middle/last/only in its chain, value record moves, key record moves, the chain predecessor moves as well (cascade), bucket head updates - all reachable (cover witnesses) and all invisible to the ideal-map oracle; plus a solver witness that a changed offset alone can force a bigger slot.", "note": NOTE},
 "C03": {"design_ref": "DESIGN 4 C03", "technique": MTECH + "; flush/sync events observed in the store models",
         "text": "After any single update from a clean or freshly opened handle, flush / sync_all / sync_data returning Ok implies that no store holds an unwritten update, each modified file was flushed and (for sync_*) synced after its last write, in the order value, key, table. Solver variables: pre-state, key, value, kind of call.", "note": NOTE},
 "C16": {"design_ref": "DESIGN 4 C16", "technique": MTECH + "; symbolic fault index over the three store flushes",
         "text": "With the flush of the 1st, 2nd or 3rd file failing (solver's choice) after a put or a delete: the call returns Err, lookups still agree with the ideal map, the handle stays dirty and a later fault-free flush leaves nothing unwritten.", "note": NOTE},
})
BTECH = TECH + "the real byte-level code on fully symbolic file images (in-memory model of the buffer layer), universally quantified post-conditions"
CHECKS.update({
 "C04": {"design_ref": "DESIGN 4 C04", "technique": MTECH + "; " + BTECH,
         "text": "Two storeys. (1) The real bucket scan next_key_piece_offset on tables whose every byte is a solver variable (bitmap consistent with the heads): it returns exactly the least non-empty bucket at or after the start index, for every start index on tables of 1..16 buckets and every group-aligned start on 32..128 (thorough ..512) buckets, never extends the file, never overflows, and its loops terminate. (2) The five real iterators over an arbitrary valid map whose table obeys that contract: every live entry exactly once with its current value, exact size_hint before every step, None twice after the end.", "note": NOTE},
 "C02": {"design_ref": "DESIGN 4 C02", "technique": BTECH + "; real open_with_params with the file system stubbed",
         "text": "Reopening is a fresh handle over the same three files: the real open_with_params of all three files on EXISTING images (all bytes symbolic) with ARBITRARY parameters writes nothing, accepts the crate's own headers, and caches the STORED bucket count (the only datum a handle remembers), so that lookups address hash mod stored n; on new files it writes exactly the documented bytes. Together with C01's induction from arbitrary valid store states this gives contents-preservation across close/reopen.", "note": NOTE},
 "C07": {"design_ref": "DESIGN 4 C07", "technique": BTECH + "; symbolic parameters through the real parameter-handling code",
         "text": "Bucket count: Capacity -> power of two >= 8 and >= capacity for all capacities < 2^60 (0 panics as documented); BucketsSize(0..16) -> next power of two, stored = cached = used for the layout; parameters ignored on existing files; byte-level scan/bucket code for 1, 2, 4 buckets and map logic for 1 and 2 buckets against a size-independent oracle. Buffer sizes: every Size(u32) reaches the buffer layer with >= 2 chunks. Eviction inside rabuf itself is outside this technique (stated).", "note": NOTE},
 "C12": {"design_ref": "DESIGN 4 C12", "technique": TECH + "differential harnesses: current code vs. a frozen format specification, symbolic inputs",
         "text": "Against the frozen specification of the released format: placement hash of all five key types for every key up to 17 bytes; vu64 byte patterns for all u64; every field codec of vfile.rs (offset/8, size/8, lengths, free link) for all values incl. untouched neighbours; the three headers byte for byte; bucket position 128 + 8*(hash mod n) and item count position; slot-size decision of key and value records for all lengths; type signatures.", "note": NOTE},
 "C13": {"design_ref": "DESIGN 4 C13", "technique": TECH + "16 symbolic signature bytes through the real header checkers and the real open_with_params (must-be-refused harnesses: cover after the call unreachable)",
         "text": "For ALL 2^128 signature pairs different from (format signature, expected type signature) and all expected signatures, each of the three header checkers and each of the three open_with_params panics on the signature assertion before producing a handle, with the file under a read-only latch (no byte written, no length change). Pairwise distinctness of the five type signatures (u64/vu64 collision = recorded finding D5).", "note": NOTE},
})
CHECKS.update({
 "C14": {"design_ref": "DESIGN 4 C14", "technique": TECH + "the real trait default methods of lib.rs on an ideal map, symbolic batches, universally quantified probe key",
         "text": "For EVERY batch of 3 u64 keys in every order (repeats allowed for bulk_get, excluded for bulk_delete/bulk_put) on every ideal map of up to 3 entries: bulk_get/bulk_delete answer position by position what the scalar call answers, bulk_put/bulk_put_string/put_from_iter leave the map as the scalar puts in order would; *_string variants are the byte variants composed with encoding/decoding.", "note": NOTE},
})
NOT_APPLICABLE = {
 "C11": "registry of maps = five BTreeMap<String,_> + format!/PathBuf file naming + the OS file namespace: symbolic execution of that code does not finish (10 min in BTreeMap search/memcmp/io::Error drop glue for one concrete name) and isolation itself is a property of the file system, which this technique can only stub; the one solver-sized fact (clones share one Rc<RefCell<_>>) holds by type.",
}
for p in ["C05", "C15", "C17", "C18"]:
    NOT_APPLICABLE[p] = "check under construction in this session (see DESIGN 4); not claimed until its harness family reaches a verdict on the unchanged tree"
NOTES = "All checks: exit 0 held (KNOWN-FINDING lines for recorded findings), exit 1 VIOLATION after native playback of the solver's counterexample, exit 2 inconclusive (timeout, out of memory, build failure of a re-linked harness crate, counterexample that does not replay). See DESIGN.md."
