#!/usr/bin/env python3
"""Collect the results of bin/seedcheck runs (.build/seedcheck/<id>-<prop>/out.txt) into
seeded/<id>/meta.json (detected_by) and print the markdown table used in DESIGN.md section 8."""
import glob, json, os, re
ROOT = os.path.dirname(os.path.dirname(os.path.abspath(__file__)))
rows = []
for mp in sorted(glob.glob(os.path.join(ROOT, "seeded", "*", "meta.json"))):
    m = json.load(open(mp))
    sid = m["id"]
    det = []
    for out in sorted(glob.glob(os.path.join(ROOT, ".build", "seedcheck", sid + "-*", "out.txt"))):
        prop = os.path.basename(os.path.dirname(out)).split("-")[1]
        txt = open(out).read()
        hs = re.findall(r"^  harness (\S+): (.*?) @", txt, re.M)
        summ = re.search(r"^%s tier=\w+ harnesses=(\d+) held=(\d+) known=(\d+) violations=(\d+) inconclusive=(\d+) wall=(\d+)s" % prop, txt, re.M)
        names = sorted(set(h for h, _ in hs))
        msgs = {}
        for h, msg in hs:
            msgs.setdefault(h, msg)
        det.append({"check": "bin/check %s --tier quick" % prop, "exit": 1 if "VIOLATION" in txt else (2 if "INCONCLUSIVE" in txt else 0), "harnesses": names,
                    "first_message": msgs.get(names[0], "") if names else "", "summary": summ.group(0) if summ else ""})
    # keep the replay record of the first counterexample next to the seed
    import shutil
    for rp in sorted(glob.glob(os.path.join(ROOT, ".build", "seedcheck", sid + "-*", "replays", "*", "*.json")))[:1]:
        shutil.copy(rp, os.path.join(os.path.dirname(mp), "replay-" + os.path.basename(rp)))
    m["detected_by"] = det
    json.dump(m, open(mp, "w"), indent=1)
    for d in det:
        rows.append("| %s | %s | %s | `%s`: exit %d - %s | %s |" % (sid, m["breaks_property"], m["change"].split(":")[0][:70], d["check"].replace("bin/check ", "").replace(" --tier quick", ""), d["exit"],
                                                         ", ".join("`%s`" % h.split("::")[1] for h in d["harnesses"][:4]) + (" ..." if len(d["harnesses"]) > 4 else ""), d["first_message"][:90]))
# (runs made before the check-id parser handled generic instantiations reported the failing check
#  only as "harness verdict FAILED"; the assertion that failed, from the harness logs of those runs)
FIX = {"C02a": "handle works with a bucket count that is not the stored one", "C04a": "scan missed a non-empty bucket", "C05a": "occupancy bits of other buckets changed",
       "C15a": "file length changed during a read-only call (seek beyond the end)", "C17b": "filling figure differs from the number of non-empty buckets"}
rows = [r.replace("harness verdict FAILED (no individual failed check)", FIX.get(r.split("|")[1].strip(), "harness verdict FAILED")) for r in rows]
print("| seed | breaks | where | caught by (quick tier) | first failing check |")
print("|---|---|---|---|---|")
print("\n".join(rows))
