"""Runner library: build harness crates with Kani, run harnesses in parallel under time/memory
caps, parse CBMC verdicts, match known findings, replay counterexamples, write evidence."""
import concurrent.futures as cf
import hashlib
import json
import os
import re
import shutil
import signal
import subprocess
import sys
import time

ROOT = os.path.dirname(os.path.dirname(os.path.abspath(__file__)))
REPO = os.environ.get("VERIF_REPO", "/repo")
BUILD = os.path.join(ROOT, ".build")
LOGS = os.path.join(BUILD, "logs")
EVID = os.environ.get("VERIF_EVIDENCE_DIR", os.path.join(ROOT, "evidence"))
REPLAYS = os.environ.get("VERIF_REPLAY_DIR", os.path.join(ROOT, "replays"))
GUARD = "abyssiniandb_verif"


def env():
    e = dict(os.environ)
    e["CARGO_NET_OFFLINE"] = "true"
    e["RUSTFLAGS"] = "--cfg " + GUARD
    e.pop("RUSTUP_TOOLCHAIN", None)
    return e


class Harness:
    """One solver query family: a #[kani::proof] function in one of the harness crates."""

    def __init__(self, crate, name, what, tier="quick", cap=300, mem_gb=12, stubbing=False,
                 unwindset=None, mode="pass", allowed_fail=None, covers_unsat=None, bounds="",
                 functions=None, assumptions=None, extra=None, features=None, may_unsat=None, mem_est=None):
        self.crate = crate
        self.name = name
        self.what = what            # one line: what is decided
        self.tier = tier            # "quick" => in both tiers, "thorough" => thorough only
        # seconds; the registry states the cap for an otherwise idle 16-core machine, the factor leaves
        # room for a loaded or slower one (a timeout is reported as inconclusive, never as a pass)
        self.cap = int(cap * float(os.environ.get("VERIF_CAP_FACTOR", "3")))
        self.mem_gb = mem_gb
        self.stubbing = stubbing
        self.unwindset = unwindset or {}
        self.mode = mode            # "pass" | "reject": must-be-refused check (see DESIGN 3)
        self.allowed_fail = allowed_fail or []    # reject mode: regexes of the refusal asserts
        self.covers_unsat = covers_unsat or []    # reject mode: cover descriptions that must be unreachable
        self.bounds = bounds
        self.functions = functions or []
        self.assumptions = assumptions or []
        self.extra = extra or []
        self.features = features or []      # cargo features of the harness crate (e.g. "big")
        self.may_unsat = may_unsat or []    # cover descriptions that are informative only
        self.mem_est = mem_est or (4 if crate in ("k", "a") else 6 if crate in ("b", "m") else 12)   # GB, for scheduling


def crate_dir(crate):
    if REPO != "/repo":
        return stage_crate(crate)
    return os.path.join(ROOT, "kani", crate)


_staged = {}
_stage_lock = __import__("threading").Lock()


def _copy_rewritten(src, dst):
    if os.path.isdir(dst):
        shutil.rmtree(dst)
    shutil.copytree(src, dst, ignore=shutil.ignore_patterns("target"))
    for dp, _, fs in os.walk(dst):
        for f in fs:
            if f.endswith((".rs", ".toml")):
                p = os.path.join(dp, f)
                s = open(p).read()
                s2 = s.replace('"/repo/', '"' + REPO + '/').replace('"/repo"', '"' + REPO + '"')
                if s2 != s:
                    open(p, "w").write(s2)


def stage_crate(crate):
    """VERIF_REPO override: copy the harness crate with /repo rewritten (for scratch worktrees)."""
    with _stage_lock:
        if crate in _staged:
            return _staged[crate]
        tag = hashlib.sha1(REPO.encode()).hexdigest()[:10]
        base = os.path.join(BUILD, "stage-" + tag)
        if "__common__" not in _staged:
            if os.path.isdir(os.path.join(ROOT, "kani", "rabuf_model")):
                _copy_rewritten(os.path.join(ROOT, "kani", "rabuf_model"), os.path.join(base, "kani", "rabuf_model"))
            sp = os.path.join(base, "spec")
            if os.path.isdir(sp):
                shutil.rmtree(sp)
            shutil.copytree(os.path.join(ROOT, "spec"), sp)
            _staged["__common__"] = base
        _copy_rewritten(os.path.join(ROOT, "kani", crate), os.path.join(base, "kani", crate))
        _staged[crate] = os.path.join(base, "kani", crate)
        return _staged[crate]


def target_dir(crate, features=()):
    tag = "" if REPO == "/repo" else "-" + hashlib.sha1(REPO.encode()).hexdigest()[:10]
    ftag = "".join("-" + f for f in sorted(features))
    return os.path.join(BUILD, "target-" + crate + ftag + tag)


def build_crate(crate, log, features=()):
    """cargo kani --only-codegen: re-encodes /repo's current working tree for every harness."""
    t0 = time.time()
    cmd = ["cargo", "kani", "--target-dir", target_dir(crate, features), "--only-codegen"]
    if features:
        cmd += ["--features", ",".join(features)]
    if crate_uses_stubbing(crate):
        cmd += ["-Z", "stubbing"]
    with open(log, "w") as lf:
        p = subprocess.run(cmd, cwd=crate_dir(crate), env=env(), stdout=lf, stderr=subprocess.STDOUT)
    return p.returncode == 0, time.time() - t0


_stub_crates = set()


def crate_uses_stubbing(crate):
    return crate in _stub_crates


CHECK_RE = re.compile(r"^Check (\d+): (\S.*?)\s*$")


def parse_output(text):
    """Parse Kani's regular output into checks, covers and statistics."""
    checks = []
    cur = None
    for line in text.splitlines():
        m = CHECK_RE.match(line)
        if m:
            cur = {"id": m.group(2), "status": None, "desc": "", "loc": ""}
            checks.append(cur)
            continue
        if cur is not None:
            s = line.strip()
            if s.startswith("- Status:"):
                cur["status"] = s.split(":", 1)[1].strip()
            elif s.startswith("- Description:"):
                cur["desc"] = s.split(":", 1)[1].strip().strip('"')
            elif s.startswith("- Location:"):
                cur["loc"] = s.split(":", 1)[1].strip()
                cur = None
    res = {"checks": checks}
    res["verdict"] = None
    m = re.search(r"^VERIFICATION:- (\w+)", text, re.M)
    if m:
        res["verdict"] = m.group(1)
    m = re.search(r"^Verification Time: ([0-9.]+)s", text, re.M)
    res["verif_time_s"] = float(m.group(1)) if m else None
    m = re.findall(r"^(\d+) variables, (\d+) clauses", text, re.M)
    if m:
        res["sat_vars"] = max(int(a) for a, _ in m)
        res["sat_clauses"] = max(int(b) for _, b in m)
    m = re.findall(r"^Runtime Solver: ([0-9.]+)s", text, re.M)
    if m:
        res["solver_s"] = sum(float(x) for x in m)
    m = re.search(r"^Runtime Symex: ([0-9.]+)s", text, re.M)
    if m:
        res["symex_s"] = float(m.group(1))
    m = re.search(r"^Generated (\d+) VCC\(s\), (\d+) remaining after simplification", text, re.M)
    if m:
        res["vccs"] = int(m.group(1))
        res["vccs_remaining"] = int(m.group(2))
    m = re.search(r"size of program expression: (\d+) steps", text)
    if m:
        res["symex_steps"] = int(m.group(1))
    res["stubs"] = re.findall(r"^\s*- Stub: (.*)$", text, re.M)
    res["status_error"] = bool(re.search(r"Status: ERROR|CBMC failed|out of memory|std::bad_alloc|terminate called", text))
    res["compile_error"] = bool(re.search(r"^error(\[E\d+\])?:", text, re.M)) and res["verdict"] is None
    return res


def is_std_internal(chk):
    loc = chk["loc"]
    return ("/rustlib/src/rust/library/" in loc) or loc.startswith("<builtin-library") or ("/.cargo/registry/" in loc and "vu64" not in loc)


def run_harness(h, logdir, playback=False):
    """Run one harness under ulimit -v and timeout; returns a result dict."""
    os.makedirs(logdir, exist_ok=True)
    log = os.path.join(logdir, "%s.%s%s.log" % (h.crate, h.name, "".join("-" + f for f in h.features)))
    cmd = ["cargo", "kani", "--target-dir", target_dir(h.crate, h.features), "--harness", "proofs::" + h.name, "--exact"]
    if h.features:
        cmd += ["--features", ",".join(h.features)]
    z = []
    if h.stubbing or crate_uses_stubbing(h.crate):
        z += ["-Z", "stubbing"]
    if playback:
        z += ["-Z", "concrete-playback", "--concrete-playback=print"]
    cmd += z + list(h.extra)
    if h.unwindset:
        cmd += ["-Z", "unstable-options", "--cbmc-args", "--unwindset",
                ",".join("%s:%d" % kv for kv in h.unwindset.items())]
    shell = "ulimit -v %d; exec %s" % (h.mem_gb * 1024 * 1024, " ".join(shq(c) for c in cmd))
    t0 = time.time()
    timed_out = False
    with open(log, "w") as lf:
        p = subprocess.Popen(["bash", "-c", shell], cwd=crate_dir(h.crate), env=env(), stdout=lf,
                             stderr=subprocess.STDOUT, start_new_session=True)
        try:
            p.wait(timeout=h.cap)
        except subprocess.TimeoutExpired:
            timed_out = True
            try:
                os.killpg(p.pid, signal.SIGKILL)
            except ProcessLookupError:
                pass
            p.wait()
    wall = time.time() - t0
    text = open(log, errors="replace").read()
    r = parse_output(text)
    r.update({"harness": h.name, "crate": h.crate, "wall_s": round(wall, 2), "timed_out": timed_out,
              "exit": p.returncode, "log": log, "cmd": " ".join(cmd)})
    classify(h, r)
    return r


def shq(s):
    return "'" + s.replace("'", "'\\''") + "'"


def classify(h, r):
    """outcome: held | failed | inconclusive(reason)"""
    chk = r["checks"]
    failed = [c for c in chk if c["status"] == "FAILURE"]
    undet = [c for c in chk if c["status"] == "UNDETERMINED"]
    covers = [c for c in chk if ".cover." in c["id"] or c["desc"].startswith("cover condition")]
    unwind_fail = [c for c in failed if "unwinding assertion" in c["desc"]]
    r["failed_checks"] = [{"desc": c["desc"], "loc": c["loc"], "id": c["id"]} for c in failed]
    r["n_checks"] = len(chk)
    r["n_covers"] = len(covers)
    r["covers_unsat"] = [c["desc"] for c in covers if c["status"] in ("UNSATISFIABLE", "UNREACHABLE")]
    r["covers_sat"] = [c["desc"] for c in covers if c["status"] == "SATISFIED"]
    r["unwind_failures"] = [c["id"] + " @ " + c["loc"] for c in unwind_fail]
    if r["timed_out"]:
        r["outcome"], r["reason"] = "inconclusive", "timeout after %ds" % h.cap
        return
    if r["compile_error"] or (r["verdict"] is None and not chk):
        r["outcome"], r["reason"] = "inconclusive", "build or driver failure (see log)"
        return
    if r["status_error"] and r["verdict"] != "SUCCESSFUL":
        r["outcome"], r["reason"] = "inconclusive", "CBMC error / out of memory"
        return
    if h.mode == "panic":
        # #[kani::should_panic]: Kani itself reports SUCCESSFUL iff a panic is reachable and
        # nothing but panics failed
        if r["verdict"] == "SUCCESSFUL":
            r["outcome"], r["reason"], r["failed_checks"] = "held", "", []
        else:
            r["outcome"], r["reason"] = "failed", "documented panic did not occur (or another check failed)"
            r["failed_checks"] = [{"desc": "should_panic harness: " + (c["desc"] if failed else "no panic reachable"), "loc": (c["loc"] if failed else h.name), "id": h.name} for c in (failed or [None])] if failed else [{"desc": "should_panic harness: no panic reachable", "loc": h.name, "id": h.name}]
        return
    if h.mode == "reject":
        # the call must be refused: the cover placed after it is unreachable, and the only
        # failing checks are the refusal asserts themselves
        bad = [c for c in failed if not any(re.search(a, c["desc"]) for a in h.allowed_fail)]
        accepted = [c for c in covers if any(x in c["desc"] for x in h.covers_unsat) and c["status"] == "SATISFIED"]
        witness = [c for c in failed if any(re.search(a, c["desc"]) for a in h.allowed_fail)]
        if unwind_fail:
            r["outcome"], r["reason"] = "failed", "unwinding assertion failed"
        elif accepted:
            r["outcome"], r["reason"] = "failed", "accepted: " + accepted[0]["desc"]
            r["failed_checks"] = [{"desc": "must be refused but was accepted: " + c["desc"], "loc": c["loc"], "id": c["id"]} for c in accepted]
        elif bad:
            r["outcome"], r["reason"] = "failed", "unexpected failing check"
            r["failed_checks"] = [{"desc": c["desc"], "loc": c["loc"], "id": c["id"]} for c in bad]
        elif not witness:
            r["outcome"], r["reason"] = "inconclusive", "refusal assert never fails: vacuous harness"
        else:
            r["outcome"], r["reason"] = "held", ""
            r["failed_checks"] = []
        return
    if r["verdict"] == "SUCCESSFUL" and not failed:
        r["covers_unsat"] = [d for d in r["covers_unsat"] if not any(m in d for m in h.may_unsat)]
        if r["covers_unsat"]:
            r["outcome"], r["reason"] = "inconclusive", "vacuity witness not satisfied: " + "; ".join(r["covers_unsat"])
        else:
            r["outcome"], r["reason"] = "held", ""
        return
    if r["verdict"] == "FAILED" and failed:
        if all(c["desc"].startswith("MODEL-LIMIT") for c in failed):
            r["outcome"], r["reason"] = "inconclusive", "the code left the access discipline the file model can represent: " + failed[0]["desc"]
            return
        r["outcome"], r["reason"] = "failed", ""
        r["failed_checks"] = [fc for fc in r["failed_checks"] if not fc["desc"].startswith("MODEL-LIMIT")] or r["failed_checks"]
        return
    if r["verdict"] == "FAILED" and not failed:
        # e.g. should_panic harness that did not panic, or only UNDETERMINED results
        r["outcome"], r["reason"] = "failed", "verification failed without a failed check (should_panic not met / undetermined)"
        r["failed_checks"] = [{"desc": "harness verdict FAILED (no individual failed check)", "loc": h.name, "id": h.name}]
        return
    r["outcome"], r["reason"] = "inconclusive", "no verdict"


# ----------------------------------------------------------------------------- known findings
def load_findings():
    p = os.path.join(ROOT, "known_findings.json")
    if not os.path.exists(p):
        return []
    return json.load(open(p))["findings"]


def match_finding(findings, prop, h, fc):
    """A failed check is covered only by an *open* finding that names this harness role and
    whose location and message patterns match the failing check."""
    for f in findings:
        if f.get("status") != "open":
            continue
        if prop not in f["properties"]:
            continue
        if not re.search(f["harness"], h.name):
            continue
        if re.search(f["check_desc"], fc["desc"]) and re.search(f["check_loc"], fc["loc"]):
            return f
    return None


# ----------------------------------------------------------------------------- replay
def playback_test(h, r, prop):
    """Re-run the failing harness with concrete playback, put the generated unit test into a
    scratch copy of the harness crate and execute it natively (dev and release)."""
    out = {"attempted": True}
    h2 = Harness(h.crate, h.name, h.what, cap=h.cap, mem_gb=h.mem_gb, stubbing=h.stubbing, unwindset=h.unwindset, extra=h.extra, features=h.features)
    r2 = run_harness(h2, os.path.join(LOGS, "playback"), playback=True)
    text = open(r2["log"], errors="replace").read()
    tests = []
    for blk in re.findall(r"```\s*\n(.*?)```", text, re.S):
        mm = re.search(r"(#\[test\]\s*\nfn (kani_concrete_playback_\w+)\(\) \{.*?\n\})", blk, re.S)
        if not mm:
            continue
        if re.search(r"/// Check for `cover`", blk):
            continue   # witnesses of cover statements are not counterexamples
        tests.append((blk, mm.group(1), mm.group(2)))
    if not tests:
        out["generated"] = False
        return out
    out["generated"] = True
    code = "\n".join(t[1] for t in tests)
    names = [t[2] for t in tests]
    out["test_code"] = code
    # scratch copy
    scratch = os.path.join(BUILD, "replay", "%s-%s" % (h.crate, h.name))
    if os.path.isdir(scratch):
        shutil.rmtree(scratch)
    src = crate_dir(h.crate)
    shutil.copytree(src, scratch, ignore=shutil.ignore_patterns("target"))
    for dp, _, fs in os.walk(scratch):
        for f in fs:
            if f.endswith((".rs", ".toml")):
                p = os.path.join(dp, f)
                s = open(p).read()
                s2 = s.replace("../../../spec/", os.path.join(os.path.dirname(os.path.dirname(src)), "spec") + "/")
                s2 = s2.replace('"../rabuf_model"', '"' + os.path.join(os.path.dirname(src), "rabuf_model") + '"')
                if s2 != s:
                    open(p, "w").write(s2)
    # put the generated tests into the module that defines the harnesses
    prp = os.path.join(scratch, "src", "proofs.rs")
    libp = os.path.join(scratch, "src", "lib.rs")
    if os.path.exists(prp):
        open(prp, "a").write("\n" + code + "\n")
    else:
        s = open(libp).read()
        mstart = s.find("mod proofs")
        brace = s.find("{", mstart)
        s = s[:brace + 1] + "\n" + code + "\n" + s[brace + 1:]
        open(libp, "w").write(s)
    results = {}
    for prof in ["dev", "release-like"]:
        full = ["cargo", "kani", "playback", "-Z", "concrete-playback"]
        if h.stubbing or crate_uses_stubbing(h.crate):
            full += ["-Z", "stubbing"]
        if h.features:
            full += ["--features", ",".join(h.features)]
        full += ["--", names[0]]
        e = env()
        e["CARGO_TARGET_DIR"] = os.path.join(BUILD, "replay-target-" + h.crate + "-" + prof)
        if prof != "dev":
            # cargo kani playback has no --release: override the test profile instead
            e["CARGO_PROFILE_TEST_OPT_LEVEL"] = "3"
            e["CARGO_PROFILE_TEST_DEBUG_ASSERTIONS"] = "false"
            e["CARGO_PROFILE_TEST_OVERFLOW_CHECKS"] = "false"
            e["CARGO_PROFILE_DEV_OPT_LEVEL"] = "3"
            e["CARGO_PROFILE_DEV_DEBUG_ASSERTIONS"] = "false"
            e["CARGO_PROFILE_DEV_OVERFLOW_CHECKS"] = "false"
        try:
            p = subprocess.run(full, cwd=scratch, env=e, stdout=subprocess.PIPE, stderr=subprocess.STDOUT, timeout=300)
            txt = p.stdout.decode(errors="replace")
            if "could not compile" in txt:
                results[prof] = "could not build: " + txt[-400:]
            elif re.search(r"test result: FAILED|panicked at", txt):
                mm = re.search(r"panicked at ([^\n]*\n[^\n]*)", txt)
                results[prof] = "fails natively (reproduced): " + (mm.group(1).strip() if mm else "")
            elif "test result: ok" in txt:
                results[prof] = "passes natively (NOT reproduced)"
            else:
                results[prof] = "could not run: " + txt[-400:]
        except subprocess.TimeoutExpired:
            results[prof] = "does not terminate natively within 300 s (reproduced as a hang)"
    out["native"] = results
    shutil.rmtree(scratch, ignore_errors=True)
    return out


def write_replay(prop, h, r, pb):
    os.makedirs(os.path.join(REPLAYS, prop), exist_ok=True)
    p = os.path.join(REPLAYS, prop, "%s.%s%s.json" % (h.crate, h.name, "".join("-" + f for f in h.features)))
    doc = {"property": prop, "harness": h.name, "crate": h.crate, "what": h.what, "bounds": h.bounds,
           "failed_checks": r["failed_checks"], "unwind_failures": r.get("unwind_failures", []),
           "reason": r.get("reason", ""), "rerun": "cd %s && RUSTFLAGS='--cfg %s' CARGO_NET_OFFLINE=true %s" % (crate_dir(h.crate), GUARD, r["cmd"]),
           "playback": pb, "repo": REPO}
    json.dump(doc, open(p, "w"), indent=1)
    return p


# ----------------------------------------------------------------------------- driver
def run_property(prop, spec, tier, jobs=None):
    """spec: dict(level, harnesses=[Harness], rule, trusted_base, assumptions, outside, functions)"""
    t0 = time.time()
    seed = int(os.environ.get("VERIF_SEED", "0") or 0)
    hs = [h for h in spec["harnesses"] if tier == "thorough" or h.tier == "quick"]
    os.makedirs(LOGS, exist_ok=True)
    os.makedirs(EVID, exist_ok=True)
    logdir = os.path.join(LOGS, prop + "-" + tier)
    crates = sorted(set((h.crate, tuple(sorted(h.features))) for h in hs))
    for h in hs:
        if h.stubbing:
            _stub_crates.add(h.crate)
    build_info = {}
    inconclusive = []

    def _b(cf):
        c, feats = cf
        tag = c + "".join("-" + f for f in feats)
        blog = os.path.join(LOGS, "build-%s-%s.log" % (tag, prop))
        ok, dt = build_crate(c, blog, feats)
        return tag, ok, dt, blog
    with cf.ThreadPoolExecutor(max_workers=4) as ex:
        for tag, ok, dt, blog in ex.map(_b, crates):
            build_info[tag] = {"ok": ok, "wall_s": round(dt, 1)}
            if not ok:
                inconclusive.append("build of harness crate '%s' against %s failed (see %s)" % (tag, REPO, blog))
    results = []
    if not inconclusive:
        jobs = jobs or int(os.environ.get("VERIF_JOBS", "12"))
        budget = int(os.environ.get("VERIF_MEM_GB", "48"))
        # heavier harnesses first; at most `jobs` at a time and at most `budget` GB of estimated memory
        order = sorted(hs, key=lambda h: -h.cap)
        import threading
        cond = threading.Condition()
        state = {"mem": 0, "n": 0}

        def _run(h):
            need = min(h.mem_est, budget)
            with cond:
                while state["n"] >= jobs or state["mem"] + need > budget:
                    cond.wait()
                state["n"] += 1
                state["mem"] += need
            try:
                return run_harness(h, logdir)
            finally:
                with cond:
                    state["n"] -= 1
                    state["mem"] -= need
                    cond.notify_all()
        with cf.ThreadPoolExecutor(max_workers=len(order) or 1) as ex:
            futs = {ex.submit(_run, h): h for h in order}
            for f in cf.as_completed(futs):
                results.append((futs[f], f.result()))
    findings = load_findings()
    violations = []
    known_lines = []
    n_checks = 0
    n_nontrivial = set()
    samples = []
    sat_vars = 0
    sat_clauses = 0
    solver_s = 0.0
    kani_s = 0.0
    held = 0
    for h, r in sorted(results, key=lambda x: x[0].name):
        n_checks += r["n_checks"]
        for c in r["checks"]:
            if c["status"] in ("SUCCESS", "FAILURE", "SATISFIED") and not is_std_internal(c):
                n_nontrivial.add((h.name, c["desc"], c["loc"]))
        sat_vars += r.get("sat_vars", 0) or 0
        sat_clauses += r.get("sat_clauses", 0) or 0
        solver_s += r.get("solver_s", 0) or 0
        kani_s += r.get("verif_time_s", 0) or 0
        samp = {"harness": "%s::%s%s" % (h.crate, h.name, "".join(" [feature %s]" % f for f in h.features)), "decides": h.what, "bounds": h.bounds, "outcome": r["outcome"],
                "checks": r["n_checks"], "covers_satisfied": len(r["covers_sat"]), "wall_s": r["wall_s"],
                "kani_time_s": r.get("verif_time_s"), "sat_vars": r.get("sat_vars"), "sat_clauses": r.get("sat_clauses"),
                "solver_s": r.get("solver_s"), "symex_steps": r.get("symex_steps"), "vccs": r.get("vccs")}
        if r.get("stubs"):
            samp["stubs"] = r["stubs"]
        if r.get("covers_sat"):
            samp["case_witnesses_satisfied"] = sorted(set(r["covers_sat"]))[:10]
        if h.features:
            samp["features"] = list(h.features)
        if r["outcome"] == "held":
            held += 1
        elif r["outcome"] == "inconclusive":
            inconclusive.append("%s::%s: %s (log %s)" % (h.crate, h.name, r["reason"], r["log"]))
        else:
            unknown = []
            for fc in r["failed_checks"]:
                f = match_finding(findings, prop, h, fc)
                if f:
                    known_lines.append("KNOWN-FINDING: property=%s %s [%s] harness=%s check=\"%s\" at %s" % (prop, f["id"], f["what"], h.name, fc["desc"], fc["loc"]))
                    samp.setdefault("known_findings", []).append(f["id"])
                else:
                    unknown.append(fc)
            if r["reason"] and not r["failed_checks"]:
                unknown.append({"desc": r["reason"], "loc": h.name, "id": h.name})
            if unknown:
                r["failed_checks"] = unknown
                pb = {"attempted": False}
                if os.environ.get("VERIF_NO_PLAYBACK") != "1" and h.mode == "pass":
                    try:
                        pb = playback_test(h, r, prop)
                    except Exception as ex:  # never let the replay machinery mask a result
                        pb = {"attempted": True, "error": repr(ex)}
                path = write_replay(prop, h, r, pb)
                native = pb.get("native", {})
                not_repro = native and all("NOT reproduced" in v for v in native.values())
                if not_repro:
                    inconclusive.append("%s::%s: counterexample did not reproduce natively (replay %s)" % (h.crate, h.name, path))
                    samp["outcome"] = "counterexample not reproduced"
                else:
                    violations.append((h, unknown, path))
                    samp["outcome"] = "VIOLATION"
                    samp["failed_checks"] = unknown[:5]
        samples.append(samp)
    wall = time.time() - t0
    ev = {
        "property_id": prop, "tier": tier, "seed": seed, "level": spec.get("level", "model_checking"),
        "coverage": {
            "evaluations": n_checks,
            "distinct_nontrivial": len(n_nontrivial),
            "rule": "one evaluation = one verification condition (CBMC property: assertion, arithmetic-overflow, bounds, pointer, unwinding or cover check) decided by the SAT solver over ALL values of the harness's symbolic inputs within the stated bounds; non-trivial = reachable (status SUCCESS/FAILURE/SATISFIED, not UNREACHABLE) and located in the harness, the spec, the models or /repo's own source (checks inside the Rust standard library are not counted); distinct = distinct (harness, description, location). " + spec.get("rule", ""),
            "samples": samples,
            "harnesses_run": len(results), "harnesses_held": held,
            "queries_discharged": len(results),
            "sat_variables_total": sat_vars, "sat_clauses_total": sat_clauses,
            "solver_time_s": round(solver_s, 2), "kani_verification_time_s": round(kani_s, 2),
            "functions_encoded": spec.get("functions", []),
            "bounds": spec.get("bounds", ""),
            "outside_the_claim": spec.get("outside", []),
            "checker_cmd": "cargo kani (Kani 0.68.0, CBMC 6.11.0, CaDiCaL) --harness <name>; unwinding assertions on",
            "trusted_base": spec.get("trusted_base", []),
            "known_findings_reported": sorted(set(l.split()[2] for l in known_lines)),
            "inconclusive": inconclusive,
            "build": build_info, "repo": REPO,
            "exhaustive": False,
        },
        "assumptions": spec.get("assumptions", []) + sorted(set(a for h in hs for a in h.assumptions)),
        "wall_s": round(wall, 1),
        "violations": len(violations),
    }
    json.dump(ev, open(os.path.join(EVID, prop + ".json"), "w"), indent=1)
    for l in sorted(set(known_lines)):
        print(l)
    for h, unknown, path in violations:
        print("VIOLATION property=%s replay=%s" % (prop, path))
        for fc in unknown[:5]:
            print("  harness %s::%s: %s @ %s" % (h.crate, h.name, fc["desc"], fc["loc"]))
    print("%s tier=%s harnesses=%d held=%d known=%d violations=%d inconclusive=%d wall=%.0fs" % (
        prop, tier, len(results), held, len(set(known_lines)), len(violations), len(inconclusive), wall))
    if violations:
        return 1
    if inconclusive:
        for i in inconclusive:
            print("INCONCLUSIVE: " + i)
        return 2
    return 0
