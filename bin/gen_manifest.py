#!/usr/bin/env python3
"""Regenerate /verif/MANIFEST.json from bin/registry.py + bin/manifest_texts.py."""
import json, os, subprocess, sys
sys.path.insert(0, os.path.dirname(os.path.abspath(__file__)))
import registry, manifest_texts as T
ROOT = os.path.dirname(os.path.dirname(os.path.abspath(__file__)))
hooks = subprocess.run(["git", "-C", "/repo", "log", "--format=%H %s"], stdout=subprocess.PIPE).stdout.decode().splitlines()
hook_commits = [l.split()[0] for l in hooks if " verif hooks" in l]
checks = []
for pid in sorted(registry.PROPS):
    t = T.CHECKS[pid]
    checks.append({
        "property_id": pid,
        "quick_cmd": "bin/check %s --tier quick" % pid,
        "thorough_cmd": "bin/check %s --tier thorough" % pid,
        "evidence_file": "evidence/%s.json" % pid,
        "replay_cmd_template": "bin/replay {path}",
        "engine": "kani-cbmc",
        "level_claimed": {"category": "model_checking", "text": t["text"], "design_ref": t["design_ref"]},
        "level_note": t["note"],
        "technique": t["technique"],
    })
na = [{"property_id": p, "reason": r} for p, r in sorted(T.NOT_APPLICABLE.items()) if p not in registry.PROPS]
m = {
    "version": 1,
    "setup_cmd": "bin/setup",
    "hooks": {
        "guard": "abyssiniandb_verif",
        "enable": "RUSTFLAGS='--cfg abyssiniandb_verif' (set by bin/check for every harness-crate build; the harness crates depend on /repo by path and #[path]-include its source files)",
        "baseline_off_cmd": "cd /repo && cargo test --workspace --no-fail-fast --offline",
        "source_commits": hook_commits,
        "add_only": True,
    },
    "engines": [{
        "name": "kani-cbmc", "path": "bin/check",
        "serves_properties": sorted(registry.PROPS),
        "kind_free_text": "bounded model checking of the real Rust source: Kani 0.68 -> CBMC 6.11 -> CaDiCaL; harness crates under kani/ (k: kernels, b: byte level over an in-memory rabuf model, r: record level, m: map level, a: API defaults)",
    }],
    "checks": checks,
    "not_applicable": na,
    "notes": T.NOTES,
}
json.dump(m, open(os.path.join(ROOT, "MANIFEST.json"), "w"), indent=1)
print("wrote MANIFEST.json: %d checks, %d not applicable" % (len(checks), len(na)))
