//! e2e <script> [dir]   exit 0 = behaves as the property demands, 1 = defect reproduced, 3 = hang watchdog
use abyssiniandb::filedb::{CheckFileDbMap, FileBufSizeParam, FileDbParams, HashBucketsParam};
use abyssiniandb::{DbMap, DbXxx, DbXxxBase};
use std::path::{Path, PathBuf};

fn fresh(dir: &str) -> PathBuf {
    let p = PathBuf::from(dir);
    let _ = std::fs::remove_dir_all(&p);
    p
}
fn watchdog(secs: u64) {
    std::thread::spawn(move || {
        std::thread::sleep(std::time::Duration::from_secs(secs));
        eprintln!("HANG: no result after {secs} s");
        std::process::exit(3);
    });
}
fn copy_dir(a: &Path, b: &Path) {
    let _ = std::fs::remove_dir_all(b);
    std::fs::create_dir_all(b).unwrap();
    for e in std::fs::read_dir(a).unwrap() {
        let e = e.unwrap();
        std::fs::copy(e.path(), b.join(e.file_name())).unwrap();
    }
}
fn bk(n: u64) -> FileDbParams {
    FileDbParams { buckets_size: HashBucketsParam::BucketsSize(n), ..Default::default() }
}
fn key(i: u64) -> String {
    format!("key-{:08}", i.wrapping_mul(0x9E3779B97F4A7C15))
}

/// D1 / C03: after flush()/sync_all() return Ok a copy of the directory opens to the current state
fn d1_flush(dir: &str) -> bool {
    let p = fresh(dir);
    let db = abyssiniandb::open_file(&p).unwrap();
    let mut m = db.db_map_string_with_params("m", bk(8)).unwrap();
    m.put_string("k1", "v1").unwrap();
    m.flush().unwrap();
    m.sync_all().unwrap();
    let c = PathBuf::from(format!("{dir}.copy"));
    copy_dir(&p, &c);
    let r = std::panic::catch_unwind(|| {
        let db2 = abyssiniandb::open_file(&c).unwrap();
        let mut m2 = db2.db_map_string("m").unwrap();
        m2.get_string("k1").unwrap()
    });
    let ok = matches!(r, Ok(Some(ref s)) if s == "v1");
    println!("d1_flush: copy taken after flush+sync_all reopens to {:?}", r.as_ref().map_err(|_| "panic"));
    // created-but-never-updated map
    let p2 = fresh(&format!("{dir}.empty"));
    let db = abyssiniandb::open_file(&p2).unwrap();
    let mut e = db.db_map_string_with_params("m", bk(8)).unwrap();
    e.sync_data().unwrap();
    let c2 = PathBuf::from(format!("{dir}.empty.copy"));
    copy_dir(&p2, &c2);
    let r2 = std::panic::catch_unwind(|| {
        let db2 = abyssiniandb::open_file(&c2).unwrap();
        let m2 = db2.db_map_string("m").unwrap();
        m2.len().unwrap()
    });
    println!("d1_flush: created-only map after sync_data reopens to len {:?}", r2.as_ref().map_err(|_| "panic"));
    ok && matches!(r2, Ok(0))
}

/// D2a / C04,C07: tables smaller than 8 buckets iterate
fn d2a_small_table(dir: &str) -> bool {
    watchdog(20);
    let mut ok = true;
    for n in [1u64, 2, 4] {
        let p = fresh(dir);
        let db = abyssiniandb::open_file(&p).unwrap();
        let mut m = db.db_map_string_with_params("m", bk(n)).unwrap();
        ok &= m.iter().count() == 0;
        for i in 0..20 {
            m.put_string(&key(i), "v").unwrap();
        }
        let mut ks: Vec<String> = m.iter().map(|(k, _)| k.to_string()).collect();
        ks.sort();
        ks.dedup();
        ok &= ks.len() == 20 && m.len().unwrap() == 20;
    }
    println!("d2a_small_table: {}", ok);
    ok
}

/// D2b / C04: 128 buckets, keys spread over the table: each key exactly once
fn d2b_rewind(dir: &str) -> bool {
    let mut ok = true;
    for n in [128u64, 256, 1024] {
        let p = fresh(dir);
        let db = abyssiniandb::open_file(&p).unwrap();
        let mut m = db.db_map_string_with_params("m", bk(n)).unwrap();
        let cnt = n / 3;
        for i in 0..cnt {
            m.put_string(&key(i), "v").unwrap();
        }
        let mut ks: Vec<String> = m.iter().map(|(k, _)| k.to_string()).collect();
        let total = ks.len();
        ks.sort();
        ks.dedup();
        if !(total as u64 == cnt && ks.len() as u64 == cnt) {
            println!("d2b_rewind: n={n}: put {cnt} keys, iteration yielded {total} items, {} distinct", ks.len());
            ok = false;
        }
    }
    println!("d2b_rewind: {}", ok);
    ok
}

/// D3 / C06,C17: a large free slot reused for a smaller large record keeps the file walkable
fn d3_large_reuse(dir: &str) -> bool {
    watchdog(20);
    let p = fresh(dir);
    let db = abyssiniandb::open_file(&p).unwrap();
    let mut m = db.db_map_string_with_params("m", bk(8)).unwrap();
    m.put("a", &vec![7u8; 1200]).unwrap();
    m.put("b", b"small").unwrap();
    m.delete("a").unwrap();
    m.put("c", &vec![9u8; 1000]).unwrap();
    let st = m.value_piece_size_stats().unwrap();
    let ls = m.value_length_stats().unwrap();
    let s = format!("{st} {ls}");
    println!("d3_large_reuse: value slot stats {s}");
    let ok = m.get("c").unwrap() == Some(vec![9u8; 1000]) && m.get("b").unwrap() == Some(b"small".to_vec());
    // same for the key file: 1200-byte key, then a 1000-byte key
    let k1 = "x".repeat(1200);
    let k2 = "y".repeat(1000);
    m.put_string(&k1, "1").unwrap();
    m.put_string("kk", "2").unwrap();
    m.delete(k1.as_str()).unwrap();
    m.put_string(&k2, "3").unwrap();
    let ks = m.key_piece_size_stats().unwrap();
    println!("d3_large_reuse: key slot stats {ks}");
    ok && m.get_string(&k2).unwrap().as_deref() == Some("3")
}

/// D4 / C08,C01: overwrite that makes the key record move (value offset needs more bytes)
fn d4_relocate(dir: &str) -> bool {
    let p = fresh(dir);
    let db = abyssiniandb::open_file(&p).unwrap();
    // one bucket: every key in one chain, so first/middle/last positions all occur
    let mut m = db.db_map_string_with_params("m", bk(1)).unwrap();
    let n = 2500u64;
    let r = std::panic::catch_unwind(std::panic::AssertUnwindSafe(|| {
        // 11-byte keys, 1-byte values: key slot 16 bytes with 1-byte value offset
        for i in 0..40 {
            m.put_string(&format!("first-{i:05}"), "a").unwrap();
        }
        for i in 0..n {
            m.put_string(&key(i), "0123456789").unwrap();
        }
        // overwrite early entries with longer values: value moves beyond 16 KiB, the key record
        // needs a wider value-offset field and (for some of them) a bigger slot
        for i in 0..40 {
            m.put_string(&format!("first-{i:05}"), &"z".repeat(40 + i)).unwrap();
        }
        let mut ok = true;
        for i in 0..40 {
            ok &= m.get_string(&format!("first-{i:05}")).unwrap() == Some("z".repeat(40 + i));
        }
        for i in 0..n {
            ok &= m.get_string(&key(i)).unwrap().as_deref() == Some("0123456789");
        }
        ok &= m.len().unwrap() == n + 40;
        ok &= m.iter().count() as u64 == n + 40;
        // deletes in the middle of the chain after relocations
        for i in (0..40).step_by(2) {
            ok &= m.delete(format!("first-{i:05}").as_str()).unwrap() == Some("z".repeat(40 + i).into_bytes());
        }
        for i in 0..40 {
            let e = if i % 2 == 0 { None } else { Some("z".repeat(40 + i)) };
            ok &= m.get_string(&format!("first-{i:05}")).unwrap() == e;
        }
        ok &= m.len().unwrap() == n + 20;
        ok
    }));
    println!("d4_relocate: {:?}", r.as_ref().map_err(|_| "panic"));
    matches!(r, Ok(true))
}

/// D4b / C08: deleting a chain member whose predecessor has to move
fn d4_del_relink(dir: &str) -> bool {
    let p = fresh(dir);
    let db = abyssiniandb::open_file(&p).unwrap();
    let mut m = db.db_map_string_with_params("m", bk(1)).unwrap();
    let r = std::panic::catch_unwind(std::panic::AssertUnwindSafe(|| {
        // A is put first (address 192), then freed slots are arranged so that a later key lands
        // *before* an earlier one in address order: chain order != address order.
        // chain (newest first): ... -> P -> K -> N ;  deleting K makes P point to N.
        // If N's address needs more offset bytes than K's, P may have to move.
        m.put_string("k-low-0001", "v").unwrap(); // lowest address, will be deleted -> free slot
        for i in 0..2500u64 {
            m.put_string(&key(i), "v").unwrap(); // push the end of the key file beyond 16 KiB*8
        }
        m.put_string("n-high-001", "v").unwrap(); // N at a high address
        m.delete("k-low-0001").unwrap(); // frees the low slot
        m.put_string("k-low-0002", "v").unwrap(); // K reuses the low slot; K.next = N (high)
        m.put_string("p-pred-001", "v").unwrap(); // P appended (high); P.next = K (low address: short)
        let before = m.len().unwrap();
        let ok1 = m.delete("k-low-0002").unwrap() == Some(b"v".to_vec()); // P.next := N (high: longer)
        let ok2 = m.get_string("p-pred-001").unwrap().as_deref() == Some("v") && m.get_string("n-high-001").unwrap().as_deref() == Some("v");
        ok1 && ok2 && m.len().unwrap() == before - 1 && m.iter().count() as u64 == before - 1
    }));
    println!("d4_del_relink: {:?}", r.as_ref().map_err(|_| "panic"));
    matches!(r, Ok(true))
}

/// D5 / C13: a u64 map must not open as a vu64 map
fn d5_sig_collision(dir: &str) -> bool {
    let p = fresh(dir);
    {
        let db = abyssiniandb::open_file(&p).unwrap();
        let mut m = db.db_map_u64_with_params("m", bk(8)).unwrap();
        m.put(&300u64, b"x").unwrap();
    }
    let r = std::panic::catch_unwind(|| {
        let db = abyssiniandb::open_file(&p).unwrap();
        let mut m = db.db_map_vu64("m").unwrap();
        m.get(&300u64).unwrap()
    });
    let r2 = std::panic::catch_unwind(|| {
        let db = abyssiniandb::open_file(&p).unwrap();
        let _ = db.db_map_i64("m").unwrap();
    });
    println!("d5_sig_collision: open as vu64 -> {:?}; open as i64 refused: {}", r.as_ref().map_err(|_| "refused"), r2.is_err());
    r.is_err() && r2.is_err()
}

/// D6 / C07: small fixed buffer sizes behave like any other
fn d6_buf_size(dir: &str) -> bool {
    watchdog(60);
    let mut ok = true;
    for sz in [0u32, 1000, 131072, 262144, 300000] {
        let p = fresh(dir);
        let db = abyssiniandb::open_file(&p).unwrap();
        let params = FileDbParams {
            key_buf_size: FileBufSizeParam::Size(sz),
            val_buf_size: FileBufSizeParam::Size(sz),
            htx_buf_size: FileBufSizeParam::Size(sz),
            buckets_size: HashBucketsParam::BucketsSize(64),
            ..Default::default()
        };
        let mut m = db.db_map_string_with_params("m", params).unwrap();
        for i in 0..3000u64 {
            m.put(&key(i), &vec![(i % 251) as u8; 100]).unwrap();
        }
        for i in 0..3000u64 {
            ok &= m.get(&key(i)).unwrap() == Some(vec![(i % 251) as u8; 100]);
        }
        println!("d6_buf_size: Size({sz}) ok so far: {ok}");
    }
    ok
}

/// randomized differential run against a BTreeMap (native validator, not a deciding step):
/// one bucket chain per `nb`, key lengths around the 16/24-byte slot boundary, value lengths that
/// push the files over the 16 KiB offset-width boundary, overwrites, deletes, re-inserts.
fn rand_model(dir: &str, seed: u64, nb: u64, ops: u64) -> bool {
    watchdog(300);
    let p = fresh(dir);
    let mut x = seed.wrapping_mul(0x9E3779B97F4A7C15) | 1;
    let mut rnd = move || {
        x ^= x >> 12;
        x ^= x << 25;
        x ^= x >> 27;
        x.wrapping_mul(0x2545F4914F6CDD1D)
    };
    let db = abyssiniandb::open_file(&p).unwrap();
    let mut m = db.db_map_bytes_with_params("m", bk(nb)).unwrap();
    let mut model: std::collections::BTreeMap<Vec<u8>, Vec<u8>> = Default::default();
    let nkeys = 900u64;
    let mkkey = |i: u64| -> Vec<u8> {
        let l = 8 + (i % 7) as usize;
        let mut k = format!("{i:06}").into_bytes();
        k.resize(l, b'k');
        k
    };
    let r = std::panic::catch_unwind(std::panic::AssertUnwindSafe(|| {
        for step in 0..ops {
            let i = rnd() % nkeys;
            let k = mkkey(i);
            match rnd() % 10 {
                0..=5 => {
                    let l = match rnd() % 8 {
                        0 => 0,
                        1..=4 => (rnd() % 30) as usize,
                        5 => 100 + (rnd() % 200) as usize,
                        6 => 900 + (rnd() % 400) as usize,
                        _ => 1 + (rnd() % 12) as usize,
                    };
                    let v = vec![(step % 251) as u8; l];
                    m.put(k.as_slice(), &v).unwrap();
                    model.insert(k, v);
                }
                6..=7 => {
                    let a = m.delete(k.as_slice()).unwrap();
                    let b = model.remove(&k);
                    assert_eq!(a, b, "delete result at step {step}");
                }
                _ => {
                    assert_eq!(m.get(k.as_slice()).unwrap(), model.get(&k).cloned(), "get at step {step}");
                }
            }
            assert_eq!(m.len().unwrap(), model.len() as u64, "len at step {step}");
        }
        let mut all: Vec<(Vec<u8>, Vec<u8>)> = m.iter().map(|(k, v)| (k.to_vec(), v)).collect();
        all.sort();
        let want: Vec<(Vec<u8>, Vec<u8>)> = model.iter().map(|(a, b)| (a.clone(), b.clone())).collect();
        assert!(all == want, "iteration differs from the model");
        let _ = m.key_piece_size_stats().unwrap();
        let _ = m.value_piece_size_stats().unwrap();
    }));
    drop(m);
    drop(db);
    let mut ok = r.is_ok();
    if ok {
        let db = abyssiniandb::open_file(&p).unwrap();
        let mut m = db.db_map_bytes("m").unwrap();
        for (k, v) in model.iter() {
            ok &= m.get(k.as_slice()).unwrap().as_ref() == Some(v);
        }
        ok &= m.len().unwrap() == model.len() as u64;
    }
    println!("rand_model seed={seed} nb={nb} ops={ops}: {}", ok);
    ok
}

/// D7 / C07: a per-mille buffer below 1000 behaves like any other (runs in a child: the defect is a stack overflow)
fn d7_per_mille(dir: &str) -> bool {
    watchdog(120);
    let mut ok = true;
    for pm in [1000u16, 999, 500, 1] {
        let p = fresh(dir);
        let db = abyssiniandb::open_file(&p).unwrap();
        let params = FileDbParams {
            key_buf_size: FileBufSizeParam::PerMille(pm),
            val_buf_size: FileBufSizeParam::PerMille(pm),
            htx_buf_size: FileBufSizeParam::PerMille(pm),
            buckets_size: HashBucketsParam::BucketsSize(64),
            ..Default::default()
        };
        let mut m = db.db_map_string_with_params("m", params).unwrap();
        println!("d7_per_mille: PerMille({pm}) ...");
        for i in 0..3000u64 {
            m.put(&key(i), &vec![(i % 251) as u8; 100]).unwrap();
        }
        for i in 0..3000u64 {
            ok &= m.get(&key(i)).unwrap() == Some(vec![(i % 251) as u8; 100]);
        }
        println!("d7_per_mille: PerMille({pm}) ok so far: {ok}");
    }
    ok
}

fn main() {
    let a: Vec<String> = std::env::args().collect();
    let name = a.get(1).map(|s| s.as_str()).unwrap_or("");
    let dir = a.get(2).cloned().unwrap_or_else(|| format!("/tmp/verif-e2e-{}-{}", name, std::process::id()));
    let ok = match name {
        "d1_flush" => d1_flush(&dir),
        "d2a_small_table" => d2a_small_table(&dir),
        "d2b_rewind" => d2b_rewind(&dir),
        "d3_large_reuse" => d3_large_reuse(&dir),
        "d4_relocate" => d4_relocate(&dir),
        "d4_del_relink" => d4_del_relink(&dir),
        "d5_sig_collision" => d5_sig_collision(&dir),
        "d6_buf_size" => d6_buf_size(&dir),
        "d7_per_mille" => d7_per_mille(&dir),
        "rand_model" => {
            let g = |i: usize, d: u64| a.get(i).and_then(|s| s.parse().ok()).unwrap_or(d);
            rand_model(&format!("/tmp/verif-e2e-rand-{}", std::process::id()), g(2, 1), g(3, 1), g(4, 20000))
        }
        _ => {
            eprintln!("unknown script");
            std::process::exit(2)
        }
    };
    for suf in ["", ".copy", ".empty", ".empty.copy"] {
        let _ = std::fs::remove_dir_all(format!("{dir}{suf}"));
    }
    std::process::exit(if ok { 0 } else { 1 });
}
