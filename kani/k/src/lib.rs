//! Layer K: integer/byte kernels of abyssiniandb, executed symbolically through the real crate
//! (path dependency on /repo built with --cfg abyssiniandb_verif).
#![allow(dead_code, unused_imports, unused_variables)]
extern crate alloc;

#[path = "../../../spec/format.rs"]
pub mod spec;

#[cfg(kani)]
mod proofs {
    use crate::spec;
    use abyssiniandb::filedb::verif::{self, KeyPiece, ValuePiece};
    use abyssiniandb::filedb::verif::{KeyPieceOffset, KeyPieceSize, ValuePieceOffset, ValuePieceSize};
    use abyssiniandb::{DbBytes, DbI64, DbMapKeyType, DbString, DbU64, DbVu64, HashValue};
    use core::mem::ManuallyDrop;
    use std::cmp::Ordering;

    /// a Vec<u8> whose length is `len` but whose storage is never touched: lets the *real*
    /// sizing functions run on lengths up to 2^31 without a 2 GiB symbolic buffer.
    fn ghost_vec(len: usize) -> ManuallyDrop<Vec<u8>> {
        ManuallyDrop::new(unsafe {
            Vec::from_raw_parts(core::ptr::NonNull::<u8>::dangling().as_ptr(), len, len)
        })
    }
    /// a Vec<u8> of length `len` backed by a real (never read) allocation of `cap` bytes, for the
    /// key sizing function, which takes `as_bytes()` of the key before asking for its length.
    fn sized_vec(len: usize, cap: usize) -> Vec<u8> {
        let mut v: Vec<u8> = Vec::with_capacity(cap);
        unsafe { v.set_len(len) };
        v
    }
    fn enc(v: u64) -> u64 {
        vu64::encoded_len(v) as u64
    }
    fn aligned_off(limit_bits: u32) -> u64 {
        let o: u64 = kani::any();
        kani::assume(o % 8 == 0 && o < (1u64 << limit_bits));
        o
    }

    // ---------------------------------------------------------------- C09 / C06 sizing kernels
    fn vslot(len_max: u32) {
        let len: u32 = kani::any();
        kani::assume(len <= len_max);
        let v = ghost_vec(len as usize);
        let p = ManuallyDrop::new(ValuePiece {
            offset: ValuePieceOffset::new(0),
            size: ValuePieceSize::new(0),
            value: ManuallyDrop::into_inner(v),
        });
        let (a, b, slot) = verif::val::slot_size(&p);
        let slot64 = slot as u64;
        // what write_piece really puts into the slot
        let written = enc(slot64 / 8) + enc(len as u64) + len as u64;
        assert!(written <= slot64, "value record exceeds its slot");
        assert!(slot % 8 == 0 && slot >= 16, "slot size not 8-aligned / too small");
        assert!(spec::is_slot_size(slot), "slot size is not a documented class");
        assert!(slot == spec::slot_for(a + b), "slot differs from the documented rounding");
        assert!(slot == spec::val_slot_chosen(len as u64), "value slot decision differs from the released rule");
        // the same slot later holds a free record: size, zero length, 8-byte link
        assert!(enc(slot64 / 8) + 1 + 8 <= slot64, "free record exceeds the slot");
        // in-place rewrite into any older, larger-or-equal slot
        let old: u32 = kani::any();
        kani::assume(spec::is_slot_size(old) && old >= slot);
        assert!(enc(old as u64 / 8) + enc(len as u64) + len as u64 <= old as u64, "in-place rewrite exceeds the old slot");
        kani::cover!(slot == 16, "smallest class");
        kani::cover!(slot == 1024, "first large class");
        kani::cover!(slot > 1 << 20, "multi-megabyte slot");
    }
    #[kani::proof]
    fn k_vslot_16m() {
        vslot(1 << 24);
    }
    #[kani::proof]
    fn k_vslot_2g() {
        vslot((1u32 << 31) - 16);
    }

    fn kslot(klen_max: u32, off_bits: u32) {
        let klen: u32 = kani::any();
        kani::assume(klen <= klen_max);
        let voff = aligned_off(off_bits);
        let noff = aligned_off(off_bits);
        let key = DbBytes::from(sized_vec(klen as usize, klen_max as usize));
        let p = ManuallyDrop::new(KeyPiece::with_key_value_next(key, ValuePieceOffset::new(voff), KeyPieceOffset::new(noff)));
        let (a, b, slot) = verif::key::slot_size(&*p);
        let slot64 = slot as u64;
        let written = enc(slot64 / 8) + enc(klen as u64) + klen as u64 + enc(voff / 8) + enc(noff / 8);
        assert!(written <= slot64, "key record exceeds its slot");
        assert!(slot % 8 == 0 && slot >= 16);
        assert!(spec::is_slot_size(slot), "slot size is not a documented class");
        assert!(slot == spec::slot_for(a + b), "slot differs from the documented rounding");
        assert!(slot == spec::key_slot_chosen(klen as u64, voff, noff), "key slot decision differs from the released rule");
        assert!(enc(slot64 / 8) + 1 + 8 <= slot64, "free record exceeds the slot");
        let old: u32 = kani::any();
        kani::assume(spec::is_slot_size(old) && old >= slot);
        assert!(enc(old as u64 / 8) + enc(klen as u64) + klen as u64 + enc(voff / 8) + enc(noff / 8) <= old as u64, "in-place rewrite exceeds the old slot");
        kani::cover!(slot == 16);
        kani::cover!(slot >= 1024);
    }
    #[kani::proof]
    fn k_kslot_64k() {
        kslot(1 << 16, 56);
    }
    #[kani::proof]
    fn k_kslot_16m() {
        kslot(1 << 24, 64);
    }

    /// C08 witness query: a rewrite of an unchanged key with a changed value offset / chain link
    /// can need a bigger slot class (this is what makes key records move).
    #[kani::proof]
    fn k_kslot_can_grow() {
        let klen: u32 = kani::any();
        kani::assume(klen <= 64);
        let (v0, n0, v1, n1) = (aligned_off(40), aligned_off(40), aligned_off(40), aligned_off(40));
        let k0 = DbBytes::from(sized_vec(klen as usize, 64));
        let k1 = DbBytes::from(sized_vec(klen as usize, 64));
        let p0 = ManuallyDrop::new(KeyPiece::with_key_value_next(k0, ValuePieceOffset::new(v0), KeyPieceOffset::new(n0)));
        let p1 = ManuallyDrop::new(KeyPiece::with_key_value_next(k1, ValuePieceOffset::new(v1), KeyPieceOffset::new(n1)));
        let s0 = verif::key::slot_size(&*p0).2;
        let s1 = verif::key::slot_size(&*p1).2;
        kani::cover!(s1 > s0 && n0 == n1, "slot class grows when only the value offset changes");
        kani::cover!(s1 > s0 && v0 == v1, "slot class grows when only the chain link changes");
        // monotone in each offset
        if v0 <= v1 && n0 <= n1 {
            assert!(s0 <= s1, "slot class not monotone in the offsets");
        }
    }

    #[kani::proof]
    fn k_class_roundup() {
        let mgr = verif::val::piece_mgr();
        let s: u32 = kani::any();
        let t: u32 = kani::any();
        kani::assume(s >= 1 && t >= 1 && s <= (1u32 << 31) && t <= (1u32 << 31));
        let rs = mgr.roundup(ValuePieceSize::new(s)).as_value();
        let rt = mgr.roundup(ValuePieceSize::new(t)).as_value();
        assert!(rs >= s, "roundup shrinks");
        assert!(spec::is_slot_size(rs));
        assert!(rs == spec::slot_for(s));
        if s <= t {
            assert!(rs <= rt, "roundup not monotone");
        }
        // never wastes a whole class: the next smaller class would not fit
        if rs > 16 && rs <= 1024 {
            let i = spec::list_of(rs);
            assert!(s > spec::CLASSES[i - 1]);
        }
        if rs > 1024 {
            assert!(rs - s <= 128);
        }
        // key file uses the same classes
        let kmgr = verif::key::piece_mgr();
        assert!(kmgr.roundup(KeyPieceSize::new(s)).as_value() == rs);
    }

    #[kani::proof]
    #[kani::unwind(17)]
    fn k_class_lists() {
        let vmgr = verif::val::piece_mgr();
        let kmgr = verif::key::piece_mgr();
        let s: u32 = kani::any();
        kani::assume(spec::is_slot_size(s));
        let li = spec::list_of(s) as u64;
        // push files a freed slot by its actual size, pop looks it up by the requested size:
        // both go through this one function, and a large request scans list 15.
        assert!(vmgr.free_piece_list_offset_of_header(ValuePieceSize::new(s)) == spec::VAL_FREE_HEAD0 + 8 * li);
        assert!(kmgr.free_piece_list_offset_of_header(KeyPieceSize::new(s)) == spec::KEY_FREE_HEAD0 + 8 * li);
        assert!(vmgr.is_large_piece_size(ValuePieceSize::new(s)) == (s >= 1024));
        assert!(kmgr.is_large_piece_size(KeyPieceSize::new(s)) == (s >= 1024));
        assert!((li == 15) == (s >= 1024));
    }

    // ---------------------------------------------------------------- C07 bucket-count kernel
    #[kani::proof]
    fn k_capacity_to_buckets() {
        let cap: u64 = kani::any();
        kani::assume(cap >= 1 && cap < (1u64 << 60));
        let n = verif::htx::capacity_to_buckets_size(cap);
        assert!(n.is_power_of_two());
        assert!(n >= 8, "documented minimum of 8 buckets");
        assert!(n >= cap, "fewer buckets than the requested capacity");
        assert!(n / 2 < cap + cap / 8 || n == 8, "more than twice the needed buckets");
    }
    #[kani::proof]
    #[kani::should_panic]
    fn k_capacity_zero_panics() {
        let _ = verif::htx::capacity_to_buckets_size(0);
    }

    // ---------------------------------------------------------------- C10 typed keys
    #[kani::proof]
    #[kani::unwind(10)]
    fn k_int_u64() {
        let a: u64 = kani::any();
        let b: u64 = kani::any();
        let ka = DbU64::from(a);
        let kr = DbU64::from(&a);
        assert!(ka.as_bytes().len() == 8 && kr.as_bytes().len() == 8);
        let le = a.to_le_bytes();
        let mut i = 0;
        while i < 8 {
            assert!(ka.as_bytes()[i] == le[i], "u64 key bytes are not little endian");
            assert!(kr.as_bytes()[i] == le[i], "by-reference conversion differs");
            i += 1;
        }
        assert!(u64::from(&ka) == a);
        let kb = DbU64::from(b);
        assert!((ka.cmp_u8(kb.as_bytes()) == Ordering::Equal) == (a == b), "u64 keys: same entry iff equal integers");
        if a == b {
            assert!(ka.hash_value() == kb.hash_value());
        }
        // what iteration hands back (from_bytes of the stored bytes) converts back
        let back = DbU64::from_bytes(ka.as_bytes());
        assert!(u64::from(back) == a);
        assert!(u64::from(ka) == a);
        core::mem::forget(kr);
        core::mem::forget(kb);
    }
    #[kani::proof]
    #[kani::unwind(10)]
    fn k_int_i64() {
        let a: i64 = kani::any();
        let b: i64 = kani::any();
        let ka = DbI64::from(a);
        let kr = DbI64::from(&a);
        let le = a.to_le_bytes();
        assert!(ka.as_bytes().len() == 8 && kr.as_bytes().len() == 8);
        let mut i = 0;
        while i < 8 {
            assert!(ka.as_bytes()[i] == le[i]);
            assert!(kr.as_bytes()[i] == le[i]);
            i += 1;
        }
        assert!(i64::from(&ka) == a);
        let kb = DbI64::from(b);
        assert!((ka.cmp_u8(kb.as_bytes()) == Ordering::Equal) == (a == b));
        if a == b {
            assert!(ka.hash_value() == kb.hash_value());
        }
        let back = DbI64::from_bytes(ka.as_bytes());
        assert!(i64::from(back) == a);
        assert!(i64::from(ka) == a);
        core::mem::forget(kr);
        core::mem::forget(kb);
    }
    #[kani::proof]
    #[kani::unwind(10)]
    fn k_int_vu64_roundtrip() {
        let a: u64 = kani::any();
        let ka = DbVu64::from(a);
        let (sb, sl) = spec::vu64_encode(a);
        assert!(ka.as_bytes().len() == sl);
        let mut i = 0;
        while i < sl {
            assert!(ka.as_bytes()[i] == sb[i], "vu64 key bytes differ from the documented encoding");
            i += 1;
        }
        assert!(u64::from(&ka) == a);
        // what iteration hands back (from_bytes of the stored bytes) converts back
        let back = DbVu64::from_bytes(ka.as_bytes());
        assert!(u64::from(&back) == a);
        core::mem::forget(back);
        core::mem::forget(ka);
    }
    #[kani::proof]
    #[kani::unwind(10)]
    fn k_int_vu64_byref() {
        let a: u64 = kani::any();
        let ka = DbVu64::from(a);
        let kr = DbVu64::from(&a);
        assert!(ka.as_bytes().len() == kr.as_bytes().len());
        let mut i = 0;
        while i < ka.as_bytes().len() {
            assert!(ka.as_bytes()[i] == kr.as_bytes()[i], "by-reference conversion differs");
            i += 1;
        }
        assert!(u64::from(ka) == a);
        core::mem::forget(kr);
    }
    #[kani::proof]
    #[kani::unwind(10)]
    fn k_int_vu64_eq() {
        let a: u64 = kani::any();
        let b: u64 = kani::any();
        let ka = DbVu64::from(a);
        let kb = DbVu64::from(b);
        // the stored side is the encoded form of b
        assert!((ka.cmp_u8(kb.as_bytes()) == Ordering::Equal) == (a == b), "vu64 keys: same entry iff equal integers");
        core::mem::forget(ka);
        core::mem::forget(kb);
    }

    const BK: usize = 8;
    fn any_bytes() -> ([u8; BK], usize) {
        let b: [u8; BK] = kani::any();
        let l: usize = kani::any();
        kani::assume(l <= BK);
        (b, l)
    }
    fn same(a: &([u8; BK], usize), b: &([u8; BK], usize)) -> bool {
        if a.1 != b.1 {
            return false;
        }
        let mut i = 0;
        while i < a.1 {
            if a.0[i] != b.0[i] {
                return false;
            }
            i += 1;
        }
        true
    }
    fn bytes_key<KT: DbMapKeyType + for<'a> From<&'a [u8]>>() {
        let a = any_bytes();
        let b = any_bytes();
        let ka = KT::from(&a.0[..a.1]);
        let kb = KT::from(&b.0[..b.1]);
        assert!(ka.as_bytes().len() == a.1);
        let mut i = 0;
        while i < a.1 {
            assert!(ka.as_bytes()[i] == a.0[i]);
            i += 1;
        }
        assert!((ka.cmp_u8(kb.as_bytes()) == Ordering::Equal) == same(&a, &b), "byte keys: same entry iff same bytes");
        let back = KT::from_bytes(ka.as_bytes());
        assert!(back.cmp_u8(ka.as_bytes()) == Ordering::Equal && back.as_bytes().len() == a.1);
        kani::cover!(a.1 < b.1 && a.1 > 0 && a.0[0] == b.0[0], "prefix-like pair");
        core::mem::forget(ka);
        core::mem::forget(kb);
        core::mem::forget(back);
    }
    #[kani::proof]
    #[kani::unwind(10)]
    fn k_bytes_dbbytes() {
        bytes_key::<DbBytes>();
    }
    #[kani::proof]
    #[kani::unwind(10)]
    fn k_bytes_dbstring() {
        bytes_key::<DbString>();
    }

    // ---------------------------------------------------------------- C12 hash + vu64 stability
    const HK: usize = 17;
    fn hash_matches_spec<KT: DbMapKeyType + From<Vec<u8>>>(max: usize) {
        let b: [u8; HK] = kani::any();
        let l: usize = kani::any();
        kani::assume(l <= max);
        // concrete-size allocation, symbolic length: keeps the allocator out of the formula
        let mut v = b.to_vec();
        v.truncate(l);
        let k = KT::from(v);
        assert!(k.as_bytes().len() == l);
        assert!(k.hash_value() == spec::hash_key(&b[..l]), "placement hash differs from the released one");
        if l <= 8 {
            let mut b8 = [0u8; 8];
            let mut i = 0;
            while i < 8 {
                b8[i] = b[i];
                i += 1;
            }
            assert!(k.hash_value() == spec::hash_key_short(&b8, l), "loop-free form of the released hash differs (used by layer M)");
        }
        kani::cover!(l == 9, "one full word and a tail");
        kani::cover!(l == 0, "empty key");
        core::mem::forget(k);
    }
    #[kani::proof]
    #[kani::unwind(10)]
    fn k_hash_dbbytes() {
        hash_matches_spec::<DbBytes>(17);
    }
    #[kani::proof]
    #[kani::unwind(10)]
    fn k_hash_dbstring() {
        hash_matches_spec::<DbString>(17);
    }
    #[kani::proof]
    #[kani::unwind(10)]
    fn k_hash_dbu64() {
        hash_matches_spec::<DbU64>(9);
    }
    #[kani::proof]
    #[kani::unwind(10)]
    fn k_hash_dbi64() {
        hash_matches_spec::<DbI64>(9);
    }
    #[kani::proof]
    #[kani::unwind(10)]
    fn k_hash_dbvu64() {
        hash_matches_spec::<DbVu64>(9);
    }

    #[kani::proof]
    #[kani::unwind(10)]
    fn k_vu64_codec() {
        let v: u64 = kani::any();
        let e = vu64::encode(v);
        let (sb, sl) = spec::vu64_encode(v);
        assert!(vu64::encoded_len(v) as usize == sl);
        assert!(e.as_ref().len() == sl);
        let mut i = 0;
        while i < sl {
            assert!(e.as_ref()[i] == sb[i], "vu64 bytes differ from the documented pattern");
            i += 1;
        }
        match vu64::decode(e.as_ref()) {
            Ok(d) => assert!(d == v),
            Err(_) => assert!(false, "decode of an encoded value failed"),
        }
        assert!(vu64::decoded_len(sb[0]) as usize == sl);
    }

    // ---------------------------------------------------------------- C13 type signatures
    fn sig_ne(a: [u8; 8], b: [u8; 8]) -> bool {
        a != b
    }
    #[kani::proof]
    #[kani::unwind(10)]
    fn k_sig_values() {
        assert!(DbString::signature() == spec::TSIG_STRING);
        assert!(DbBytes::signature() == spec::TSIG_BYTES);
        assert!(DbU64::signature() == spec::TSIG_U64);
        assert!(DbI64::signature() == spec::TSIG_I64);
        assert!(DbVu64::signature() == spec::TSIG_VU64);
    }
    #[kani::proof]
    #[kani::unwind(10)]
    fn k_sig_distinct() {
        let s = [DbString::signature(), DbBytes::signature(), DbU64::signature(), DbI64::signature(), DbVu64::signature()];
        let i: usize = kani::any();
        let j: usize = kani::any();
        kani::assume(i < 5 && j < 5 && i < j);
        // the one known collision is asserted separately so that it can be keyed as a finding
        if !(i == 2 && j == 4) {
            assert!(sig_ne(s[i], s[j]), "two key types share a type signature");
        }
    }
    #[kani::proof]
    #[kani::unwind(10)]
    fn k_sig_u64_vs_vu64() {
        assert!(sig_ne(DbU64::signature(), DbVu64::signature()), "DbU64 and DbVu64 share a type signature");
    }

    // ---------------------------------------------------------------- C17 histogram containers
    /// RecordSizeStats::touch_size / LengthStats::touch_length keep a vector whose counts are,
    /// per value, exactly the number of touches (the order of the cells is not part of C17) (layer M stubs them by a plain
    /// append and reads the result as a multiset)
    #[kani::proof]
    #[kani::unwind(6)]
    fn k_touch_size() {
        use abyssiniandb::filedb::verif::{Key, KeyPieceSize};
        use abyssiniandb::filedb::{verif_stats, RecordSizeStats};
        let mut s = RecordSizeStats::<Key>::default();
        let a: [u32; 3] = kani::any();
        kani::assume(a[0] % 8 == 0 && a[1] % 8 == 0 && a[2] % 8 == 0);
        s.touch_size(KeyPieceSize::new(a[0]));
        s.touch_size(KeyPieceSize::new(a[1]));
        s.touch_size(KeyPieceSize::new(a[2]));
        let v = verif_stats::size_vec_ref(&s);
        assert!(v.len() >= 1 && v.len() <= 3);
        let q: u32 = kani::any();
        let mut got = 0u64;
        let mut j = 0;
        while j < v.len() {
            if v[j].0.as_value() == q {
                got += v[j].1;
            }
            j += 1;
        }
        let e = (a[0] == q) as u64 + (a[1] == q) as u64 + (a[2] == q) as u64;
        assert!(got == e, "histogram count differs from the number of touches");
        kani::cover!(v.len() == 2, "one value touched twice");
        core::mem::forget(s);
    }
    #[kani::proof]
    #[kani::unwind(6)]
    fn k_touch_length() {
        use abyssiniandb::filedb::verif::{Value, ValueLength};
        use abyssiniandb::filedb::{verif_stats, LengthStats};
        let mut s = LengthStats::<Value>::default();
        let a: [u32; 3] = kani::any();
        s.touch_length(ValueLength::new(a[0]));
        s.touch_length(ValueLength::new(a[1]));
        s.touch_length(ValueLength::new(a[2]));
        let v = verif_stats::length_vec_ref(&s);
        let q: u32 = kani::any();
        let mut got = 0u64;
        let mut j = 0;
        while j < v.len() {
            if v[j].0.as_value() == q {
                got += v[j].1;
            }
            j += 1;
        }
        let e = (a[0] == q) as u64 + (a[1] == q) as u64 + (a[2] == q) as u64;
        assert!(got == e, "histogram count differs from the number of touches");
        core::mem::forget(s);
    }
}
