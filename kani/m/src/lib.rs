//! Layer M: the real map logic of abyssiniandb (`src/filedb/inner/dbxxx.rs`, compiled verbatim
//! from /repo via `#[path]`) executed symbolically over abstract record stores.
//!
//! The three sibling modules `key`, `val`, `htx` that `dbxxx.rs` talks to are replaced by small
//! stores that implement the R=>M contract of /verif/kani/CONTRACTS.md:
//!   * a record lives at an 8-aligned address >= 192; `add` returns an address not in use;
//!   * `write_piece` of an existing record keeps the address iff the slot the released sizing
//!     rule asks for (spec::key_slot_chosen, proved equal to the crate's own computation for all
//!     inputs by harness k_kslot_*) is not larger than the record's slot, otherwise the old slot
//!     is freed and the record moves to a fresh address;
//!   * values: the same rule over an abstract, monotone "slot class of a length" function that
//!     is a solver variable (real value lengths up to 2^31 are decided at layer K/R);
//!   * any access to an address that holds no live record is an assertion failure at the model;
//!   * a read-only latch turns any mutation into an assertion failure;
//!   * flush / sync requests are recorded (order, per-store dirty flags) and can be made to fail.
#![allow(dead_code, unused_imports, unused_variables, static_mut_refs)]
extern crate alloc;

#[path = "../../../spec/format.rs"]
pub mod spec;

pub mod world {
    use crate::spec;
    #[cfg(not(feature = "big"))]
    pub const NK: usize = 3; // record slots per store (2 live entries + 1 new entry / free slot)
    #[cfg(feature = "big")]
    pub const NK: usize = 5;
    #[cfg(not(feature = "big"))]
    pub const NPRE: usize = 2; // live entries in the pre-state
    #[cfg(feature = "big")]
    pub const NPRE: usize = 3;
    pub const KMAX: usize = 2; // key bytes tracked
    pub const VMAX: usize = 2; // value bytes tracked
    pub const NB: usize = 2; // buckets (1 or 2, solver's choice)
    pub const NCLS: u8 = 3; // abstract value slot classes 0..=NCLS

    #[derive(Clone, Copy)]
    pub struct KeyRec {
        pub exists: bool, // a slot at this address exists in the file
        pub used: bool,   // ... and holds a live key record (else: it is on a free list)
        pub off: u64,
        pub size: u32, // slot size in bytes
        pub key: [u8; KMAX],
        pub klen: usize,
        pub val_off: u64,
        pub next: u64,
    }
    #[derive(Clone, Copy)]
    pub struct ValRec {
        pub exists: bool,
        pub used: bool,
        pub off: u64,
        pub cls: u8, // abstract slot class of the slot
        pub val: [u8; VMAX],
        pub vlen: usize,
    }
    pub const NOKEY: KeyRec = KeyRec { exists: false, used: false, off: 0, size: 0, key: [0; KMAX], klen: 0, val_off: 0, next: 0 };
    pub const NOVAL: ValRec = ValRec { exists: false, used: false, off: 0, cls: 0, val: [0; VMAX], vlen: 0 };

    pub struct World {
        pub keys: [KeyRec; NK],
        pub vals: [ValRec; NK],
        pub nb: u64,
        pub heads: [u64; NB],
        pub count: u64,
        /// abstract value sizing: slot class needed for a value of length l (monotone)
        pub need_of_len: [u8; VMAX + 1],
        /// every key carries `kpad` further bytes that are not tracked (one fixed suffix shared by
        /// all keys, so key equality is unaffected); they count for the slot size only.  This
        /// lets records of 0..2 tracked bytes sit at every slot-size boundary.
        pub kpad: u64,
        // ---- flush protocol (store 0 = value, 1 = key, 2 = table)
        pub dirty: [bool; 3],
        pub flushed: [u32; 3],
        pub synced_all: [u32; 3],
        pub synced_data: [u32; 3],
        pub order: [u8; 8],
        pub norder: usize,
        pub fault_at: u8,
        pub calls: u8,
        // ---- observation
        pub ro: bool,
        pub key_freed: u32,
        pub val_freed: u32,
        pub key_added: u32,
        pub val_added: u32,
        pub key_moves: u32,
        pub val_moves: u32,
        pub head_writes: u32,
        /// values handed to the histogram containers by the statistics calls (see proofs.rs)
        pub touched: [u32; 8],
        pub ntouched: usize,
    }
    pub static mut W: World = World {
        keys: [NOKEY; NK],
        vals: [NOVAL; NK],
        nb: 1,
        heads: [0; NB],
        count: 0,
        need_of_len: [0; VMAX + 1],
        kpad: 0,
        dirty: [false; 3],
        flushed: [0; 3],
        synced_all: [0; 3],
        synced_data: [0; 3],
        order: [0; 8],
        norder: 0,
        fault_at: 255,
        calls: 0,
        ro: false,
        key_freed: 0,
        val_freed: 0,
        key_added: 0,
        val_added: 0,
        key_moves: 0,
        val_moves: 0,
        head_writes: 0,
        touched: [0; 8],
        ntouched: 0,
    };
    pub fn w() -> &'static mut World {
        unsafe { &mut *core::ptr::addr_of_mut!(W) }
    }

    #[cfg(kani)]
    fn any_addr() -> u64 {
        let o: u64 = kani::any();
        kani::assume(o >= spec::DAT_HEADER_SZ && o % 8 == 0 && o < (1u64 << 56));
        o
    }
    /// an address that holds no slot of the key store
    pub fn fresh_key_off() -> u64 {
        #[cfg(kani)]
        {
            let o = any_addr();
            let w = w();
            let mut i = 0;
            while i < NK {
                kani::assume(!(w.keys[i].exists && w.keys[i].off == o));
                i += 1;
            }
            o
        }
        #[cfg(not(kani))]
        {
            0
        }
    }
    pub fn fresh_val_off() -> u64 {
        #[cfg(kani)]
        {
            let o = any_addr();
            let w = w();
            let mut i = 0;
            while i < NK {
                kani::assume(!(w.vals[i].exists && w.vals[i].off == o));
                i += 1;
            }
            o
        }
        #[cfg(not(kani))]
        {
            0
        }
    }
    /// store `who` (0 value, 1 key, 2 table) is asked to flush (kind 0) / sync_all (1) / sync_data (2)
    pub fn flush_req(who: usize, kind: u8) -> std::io::Result<()> {
        let w = w();
        let c = w.calls;
        w.calls += 1;
        if c == w.fault_at {
            return Err(std::io::Error::from(std::io::ErrorKind::Other));
        }
        w.dirty[who] = false;
        w.flushed[who] += 1;
        if kind == 1 {
            w.synced_all[who] += 1;
        }
        if kind == 2 {
            w.synced_data[who] += 1;
        }
        if w.norder < 8 {
            w.order[w.norder] = who as u8;
            w.norder += 1;
        }
        Ok(())
    }
    /// store `who` is modified
    pub fn touch(who: usize) {
        let w = w();
        assert!(!w.ro, "store modified during a read-only call");
        w.dirty[who] = true;
    }
    /// slot the released sizing rule asks for (spec::key_slot_chosen == the crate's own
    /// computation for all inputs: harnesses k_kslot_*)
    pub fn key_need(klen: usize, val_off: u64, next: u64) -> u32 {
        spec::key_slot_chosen(klen as u64 + w().kpad, val_off, next)
    }
    pub fn kfind(off: u64) -> Option<usize> {
        let w = w();
        let mut i = 0;
        while i < NK {
            if w.keys[i].exists && w.keys[i].off == off {
                return Some(i);
            }
            i += 1;
        }
        None
    }
    pub fn vfind(off: u64) -> Option<usize> {
        let w = w();
        let mut i = 0;
        while i < NK {
            if w.vals[i].exists && w.vals[i].off == off {
                return Some(i);
            }
            i += 1;
        }
        None
    }
    /// index of the live key record at `off`; anything else is a dangling access
    pub fn klive(off: u64) -> usize {
        match kfind(off) {
            Some(i) => {
                assert!(w().keys[i].used, "key store: access to a freed record");
                i
            }
            None => {
                assert!(false, "key store: access to an address that holds no record");
                0
            }
        }
    }
    pub fn vlive(off: u64) -> usize {
        match vfind(off) {
            Some(i) => {
                assert!(w().vals[i].used, "value store: access to a freed record");
                i
            }
            None => {
                assert!(false, "value store: access to an address that holds no record");
                0
            }
        }
    }
    /// a free array entry for a new slot (capacity is a structure bound, not a claim)
    pub fn kalloc() -> usize {
        let w = w();
        let mut i = 0;
        while i < NK {
            if !w.keys[i].exists {
                return i;
            }
            i += 1;
        }
        #[cfg(kani)]
        kani::assume(false);
        0
    }
    pub fn valloc() -> usize {
        let w = w();
        let mut i = 0;
        while i < NK {
            if !w.vals[i].exists {
                return i;
            }
            i += 1;
        }
        #[cfg(kani)]
        kani::assume(false);
        0
    }
}

pub use abyssiniandb::{DbMapKeyType, DbXxxBase, DbXxxObjectSafe};

pub mod filedb {
    pub use abyssiniandb::filedb::{CheckFileDbMap, CountOfPerSize, FileDbParams, KeysCountStats, LengthStats, RecordSizeStats};
    pub mod inner {
        #[inline]
        pub fn _cold() {}
        pub mod semtype {
            pub use abyssiniandb::filedb::verif::{
                HashValue, Key, KeyLength, KeyPieceOffset, KeyPieceSize, KeysCount, Length, Offset, PieceOffset, PieceSize, Size, Value, ValueLength,
                ValuePieceOffset, ValuePieceSize,
            };
        }

        pub mod key {
            use super::semtype::*;
            use crate::spec;
            use crate::world::*;
            use crate::DbMapKeyType;
            use std::cell::RefCell;
            use std::io::Result;
            use std::marker::PhantomData;
            use std::path::Path;
            use std::rc::Rc;
            pub struct KeyInner<KT>(PhantomData<KT>);
            #[derive(Clone)]
            pub struct KeyFile<KT: DbMapKeyType>(pub Rc<RefCell<KeyInner<KT>>>);
            impl<KT: DbMapKeyType> std::fmt::Debug for KeyFile<KT> {
                fn fmt(&self, _f: &mut std::fmt::Formatter<'_>) -> std::fmt::Result {
                    Ok(())
                }
            }
            #[derive(Debug, Default, Clone)]
            pub struct KeyPiece<KT: DbMapKeyType> {
                pub offset: KeyPieceOffset,
                pub size: KeyPieceSize,
                pub key: KT,
                pub value_offset: ValuePieceOffset,
                pub bucket_next_offset: KeyPieceOffset,
            }
            pub struct KeyBuf {
                b: [u8; KMAX],
                l: usize,
            }
            impl std::ops::Deref for KeyBuf {
                type Target = [u8];
                fn deref(&self) -> &[u8] {
                    &self.b[..self.l]
                }
            }
            fn key_of<KT: DbMapKeyType>(r: &KeyRec) -> KT {
                KT::from_bytes(&r.key[..r.klen])
            }
            impl<KT: DbMapKeyType> KeyInner<KT> {
                /// the stored key bytes (the real store hands out a rabuf::MaybeSlice; no heap here)
                pub fn read_piece_only_key_maybeslice(&mut self, off: KeyPieceOffset) -> Result<KeyBuf> {
                    let r = &w().keys[klive(off.as_value())];
                    Ok(KeyBuf { b: r.key, l: r.klen })
                }
                pub fn read_piece_only_bucket_next_offset(&mut self, off: KeyPieceOffset) -> Result<KeyPieceOffset> {
                    Ok(KeyPieceOffset::new(w().keys[klive(off.as_value())].next))
                }
            }
            impl<KT: DbMapKeyType> KeyFile<KT> {
                pub fn open_with_params<P: AsRef<Path>>(_p: P, _n: &str, _s: [u8; 8], _pa: &crate::filedb::FileDbParams) -> Result<Self> {
                    Ok(Self(Rc::new(RefCell::new(KeyInner(PhantomData)))))
                }
                pub fn read_fill_buffer(&self) -> Result<()> {
                    Ok(())
                }
                pub fn flush(&self) -> Result<()> {
                    flush_req(1, 0)
                }
                pub fn sync_all(&self) -> Result<()> {
                    flush_req(1, 1)
                }
                pub fn sync_data(&self) -> Result<()> {
                    flush_req(1, 2)
                }
                pub(crate) fn piece_offset_iter(&self) -> KeyPieceOffsetIter {
                    KeyPieceOffsetIter(0)
                }
                /// slot walk API: also valid on free slots
                pub(crate) fn read_piece_only_size(&self, off: KeyPieceOffset) -> Result<KeyPieceSize> {
                    match kfind(off.as_value()) {
                        Some(i) => Ok(KeyPieceSize::new(w().keys[i].size)),
                        None => {
                            assert!(false, "key store: size read at an address that holds no slot");
                            Ok(KeyPieceSize::new(0))
                        }
                    }
                }
                /// slot walk API: a free slot reads as key length zero
                pub fn read_piece_only_key_length(&self, off: KeyPieceOffset) -> Result<KeyLength> {
                    match kfind(off.as_value()) {
                        Some(i) => {
                            let r = &w().keys[i];
                            Ok(KeyLength::new(if r.used { r.klen as u32 } else { 0 }))
                        }
                        None => {
                            assert!(false, "key store: length read at an address that holds no slot");
                            Ok(KeyLength::new(0))
                        }
                    }
                }
                pub fn read_piece_only_key(&self, off: KeyPieceOffset) -> Result<KT> {
                    Ok(key_of(&w().keys[klive(off.as_value())]))
                }
                pub fn read_piece_only_value_offset(&self, off: KeyPieceOffset) -> Result<ValuePieceOffset> {
                    Ok(ValuePieceOffset::new(w().keys[klive(off.as_value())].val_off))
                }
                pub fn read_piece(&self, off: KeyPieceOffset) -> Result<KeyPiece<KT>> {
                    let r = w().keys[klive(off.as_value())];
                    Ok(KeyPiece {
                        offset: off,
                        size: KeyPieceSize::new(r.size),
                        key: key_of(&r),
                        value_offset: ValuePieceOffset::new(r.val_off),
                        bucket_next_offset: KeyPieceOffset::new(r.next),
                    })
                }
                /// rewrite of an existing record; moves exactly when the released sizing rule needs
                /// a bigger slot than the record has
                pub fn write_piece(&self, mut piece: KeyPiece<KT>) -> Result<KeyPiece<KT>> {
                    touch(1);
                    let i = klive(piece.offset.as_value());
                    {
                        // the key of a record never changes (the crate rewrites what it has read)
                        let kb = piece.key.as_bytes();
                        let r = &w().keys[i];
                        assert!(kb.len() == r.klen, "key store: record rewritten with another key");
                        let mut j = 0;
                        while j < r.klen {
                            assert!(kb[j] == r.key[j], "key store: record rewritten with another key");
                            j += 1;
                        }
                    }
                    let vo = piece.value_offset.as_value();
                    let no = piece.bucket_next_offset.as_value();
                    assert!(vo % 8 == 0 && no % 8 == 0, "key store: unaligned offset stored");
                    let need = key_need(w().keys[i].klen, vo, no);
                    if need > w().keys[i].size {
                        let o = fresh_key_off();
                        let ww = w();
                        // the old slot goes to its free list; the array entry follows the record
                        ww.key_freed += 1;
                        ww.key_added += 1;
                        ww.key_moves += 1;
                        ww.keys[i].off = o;
                        ww.keys[i].size = need;
                        piece.offset = KeyPieceOffset::new(o);
                    }
                    let r = &mut w().keys[i];
                    r.val_off = vo;
                    r.next = no;
                    piece.size = KeyPieceSize::new(r.size);
                    Ok(piece)
                }
                pub fn delete_piece(&self, off: KeyPieceOffset) -> Result<KeyPieceSize> {
                    touch(1);
                    let i = klive(off.as_value());
                    let ww = w();
                    ww.keys[i].used = false;
                    ww.key_freed += 1;
                    Ok(KeyPieceSize::new(ww.keys[i].size))
                }
                pub fn add_key_piece(&self, key: &KT, value_offset: ValuePieceOffset, next: KeyPieceOffset) -> Result<KeyPiece<KT>> {
                    touch(1);
                    let i = kalloc();
                    let o = fresh_key_off();
                    let kb = key.as_bytes();
                    #[cfg(kani)]
                    kani::assume(kb.len() <= KMAX);
                    assert!(value_offset.as_value() % 8 == 0 && next.as_value() % 8 == 0, "key store: unaligned offset stored");
                    let size = key_need(kb.len(), value_offset.as_value(), next.as_value());
                    let ww = w();
                    ww.key_added += 1;
                    let r = &mut ww.keys[i];
                    r.exists = true;
                    r.used = true;
                    r.off = o;
                    r.size = size;
                    r.klen = kb.len();
                    let mut j = 0;
                    while j < kb.len() {
                        r.key[j] = kb[j];
                        j += 1;
                    }
                    r.val_off = value_offset.as_value();
                    r.next = next.as_value();
                    Ok(KeyPiece { offset: KeyPieceOffset::new(o), size: KeyPieceSize::new(size), key: key.clone(), value_offset, bucket_next_offset: next })
                }
                pub fn count_of_free_key_piece(&self) -> Result<Vec<(u32, u64)>> {
                    Ok(Vec::new())
                }
            }
            /// sequential slot walk: every existing slot (live or free) exactly once
            #[derive(Debug)]
            pub struct KeyPieceOffsetIter(usize);
            impl Iterator for KeyPieceOffsetIter {
                type Item = KeyPieceOffset;
                fn next(&mut self) -> Option<KeyPieceOffset> {
                    let w = w();
                    while self.0 < NK {
                        let i = self.0;
                        self.0 += 1;
                        if w.keys[i].exists {
                            return Some(KeyPieceOffset::new(w.keys[i].off));
                        }
                    }
                    None
                }
            }
        }

        pub mod val {
            use super::semtype::*;
            use crate::world::*;
            use std::io::Result;
            use std::path::Path;
            #[derive(Debug, Clone)]
            pub struct ValueFile;
            #[derive(Debug, Default, Clone)]
            pub struct ValuePiece {
                pub offset: ValuePieceOffset,
                pub size: ValuePieceSize,
                pub value: Vec<u8>,
            }
            fn store(i: usize, value: &[u8]) {
                #[cfg(kani)]
                kani::assume(value.len() <= VMAX);
                let r = &mut w().vals[i];
                r.vlen = value.len();
                let mut j = 0;
                while j < value.len() {
                    r.val[j] = value[j];
                    j += 1;
                }
            }
            fn need(len: usize) -> u8 {
                #[cfg(kani)]
                kani::assume(len <= VMAX);
                w().need_of_len[len]
            }
            impl ValueFile {
                pub fn open_with_params<P: AsRef<Path>>(_p: P, _n: &str, _s: [u8; 8], _pa: &crate::filedb::FileDbParams) -> Result<Self> {
                    Ok(ValueFile)
                }
                pub fn read_fill_buffer(&self) -> Result<()> {
                    Ok(())
                }
                pub fn flush(&self) -> Result<()> {
                    flush_req(0, 0)
                }
                pub fn sync_all(&self) -> Result<()> {
                    flush_req(0, 1)
                }
                pub fn sync_data(&self) -> Result<()> {
                    flush_req(0, 2)
                }
                pub(crate) fn piece_offset_iter(&self) -> ValuePieceOffsetIter {
                    ValuePieceOffsetIter(0)
                }
                pub(crate) fn read_piece_only_size(&self, off: ValuePieceOffset) -> Result<ValuePieceSize> {
                    match vfind(off.as_value()) {
                        Some(i) => Ok(ValuePieceSize::new(16 + 8 * w().vals[i].cls as u32)),
                        None => {
                            assert!(false, "value store: size read at an address that holds no slot");
                            Ok(ValuePieceSize::new(0))
                        }
                    }
                }
                pub fn read_piece_only_value_length(&self, off: ValuePieceOffset) -> Result<ValueLength> {
                    match vfind(off.as_value()) {
                        Some(i) => {
                            let r = &w().vals[i];
                            Ok(ValueLength::new(if r.used { r.vlen as u32 } else { 0 }))
                        }
                        None => {
                            assert!(false, "value store: length read at an address that holds no slot");
                            Ok(ValueLength::new(0))
                        }
                    }
                }
                pub fn read_piece_only_value(&self, off: ValuePieceOffset) -> Result<Vec<u8>> {
                    let r = &w().vals[vlive(off.as_value())];
                    Ok(r.val[..r.vlen].to_vec())
                }
                pub fn read_piece(&self, off: ValuePieceOffset) -> Result<ValuePiece> {
                    let r = &w().vals[vlive(off.as_value())];
                    Ok(ValuePiece { offset: off, size: ValuePieceSize::new(16 + 8 * r.cls as u32), value: r.val[..r.vlen].to_vec() })
                }
                pub fn write_piece(&self, mut piece: ValuePiece) -> Result<ValuePiece> {
                    touch(0);
                    let i = vlive(piece.offset.as_value());
                    let n = need(piece.value.len());
                    if n > w().vals[i].cls {
                        let o = fresh_val_off();
                        let ww = w();
                        ww.val_freed += 1;
                        ww.val_added += 1;
                        ww.val_moves += 1;
                        ww.vals[i].off = o;
                        ww.vals[i].cls = n;
                        piece.offset = ValuePieceOffset::new(o);
                    }
                    store(i, &piece.value);
                    piece.size = ValuePieceSize::new(16 + 8 * w().vals[i].cls as u32);
                    Ok(piece)
                }
                pub fn delete_piece(&self, off: ValuePieceOffset) -> Result<ValuePieceSize> {
                    touch(0);
                    let i = vlive(off.as_value());
                    let ww = w();
                    ww.vals[i].used = false;
                    ww.val_freed += 1;
                    Ok(ValuePieceSize::new(16 + 8 * ww.vals[i].cls as u32))
                }
                pub fn add_value_piece(&self, value: &[u8]) -> Result<ValuePiece> {
                    touch(0);
                    let i = valloc();
                    let o = fresh_val_off();
                    let n = need(value.len());
                    {
                        let ww = w();
                        ww.val_added += 1;
                        let r = &mut ww.vals[i];
                        r.exists = true;
                        r.used = true;
                        r.off = o;
                        r.cls = n;
                    }
                    store(i, value);
                    Ok(ValuePiece { offset: ValuePieceOffset::new(o), size: ValuePieceSize::new(16 + 8 * n as u32), value: value.to_vec() })
                }
                pub fn count_of_free_value_piece(&self) -> Result<Vec<(u32, u64)>> {
                    Ok(Vec::new())
                }
            }
            #[derive(Debug)]
            pub struct ValuePieceOffsetIter(usize);
            impl Iterator for ValuePieceOffsetIter {
                type Item = ValuePieceOffset;
                fn next(&mut self) -> Option<ValuePieceOffset> {
                    let w = w();
                    while self.0 < NK {
                        let i = self.0;
                        self.0 += 1;
                        if w.vals[i].exists {
                            return Some(ValuePieceOffset::new(w.vals[i].off));
                        }
                    }
                    None
                }
            }
        }

        pub mod htx {
            use super::semtype::*;
            use crate::world::*;
            use std::cell::RefCell;
            use std::io::Result;
            use std::path::Path;
            use std::rc::Rc;
            pub struct HtxVarFile;
            impl HtxVarFile {
                /// contract proved for the real function at layer B (b_scan_*): the least
                /// non-empty bucket j >= idx as (j + 1, head[j]); otherwise (some index >= n, 0)
                pub fn next_key_piece_offset(&mut self, n: u64, idx: u64) -> Result<(u64, KeyPieceOffset)> {
                    let w = w();
                    assert!(n == w.nb, "table scanned with a bucket count that is not the stored one");
                    let mut i = idx;
                    while i < n {
                        let h = w.heads[i as usize];
                        i += 1;
                        if h != 0 {
                            return Ok((i, KeyPieceOffset::new(h)));
                        }
                    }
                    #[cfg(kani)]
                    {
                        let over: u64 = kani::any();
                        kani::assume(over <= 72);
                        i += over;
                    }
                    Ok((i, KeyPieceOffset::new(0)))
                }
            }
            pub struct HtxInner {
                pub file: HtxVarFile,
            }
            #[derive(Clone)]
            pub struct HtxFile(pub Rc<RefCell<HtxInner>>);
            impl std::fmt::Debug for HtxFile {
                fn fmt(&self, _f: &mut std::fmt::Formatter<'_>) -> std::fmt::Result {
                    Ok(())
                }
            }
            impl HtxFile {
                pub fn open_with_params<P: AsRef<Path>>(_p: P, _n: &str, _s: [u8; 8], _pa: &crate::filedb::FileDbParams) -> Result<Self> {
                    Ok(Self(Rc::new(RefCell::new(HtxInner { file: HtxVarFile }))))
                }
                pub fn read_fill_buffer(&self) -> Result<()> {
                    Ok(())
                }
                pub fn flush(&self) -> Result<()> {
                    flush_req(2, 0)
                }
                pub fn sync_all(&self) -> Result<()> {
                    flush_req(2, 1)
                }
                pub fn sync_data(&self) -> Result<()> {
                    flush_req(2, 2)
                }
                pub fn read_hash_buckets_size(&self) -> Result<u64> {
                    Ok(w().nb)
                }
                pub fn read_key_piece_offset(&self, hash: HashValue) -> Result<KeyPieceOffset> {
                    let w = w();
                    Ok(KeyPieceOffset::new(w.heads[(hash.as_value() % w.nb) as usize]))
                }
                pub fn write_key_piece_offset(&self, hash: HashValue, off: KeyPieceOffset) -> Result<()> {
                    touch(2);
                    let w = w();
                    w.head_writes += 1;
                    w.heads[(hash.as_value() % w.nb) as usize] = off.as_value();
                    Ok(())
                }
                pub fn read_item_count(&self) -> Result<u64> {
                    Ok(w().count)
                }
                pub fn write_item_count_up(&mut self) -> Result<()> {
                    touch(2);
                    w().count += 1;
                    Ok(())
                }
                pub fn write_item_count_down(&mut self) -> Result<()> {
                    touch(2);
                    let w = w();
                    if w.count > 0 {
                        w.count -= 1;
                    }
                    Ok(())
                }
                pub fn htx_filling_rate_per_mill(&self) -> Result<(u64, u32)> {
                    let w = w();
                    let mut c = 0u64;
                    let mut i = 0;
                    while (i as u64) < w.nb {
                        if w.heads[i] != 0 {
                            c += 1;
                        }
                        i += 1;
                    }
                    Ok((c, (c * 1000 / w.nb) as u32))
                }
            }
        }

        #[path = "/repo/src/filedb/inner/dbxxx.rs"]
        pub mod dbxxx;
    }
}

#[cfg(kani)]
mod proofs;
