//! Harnesses of layer M.  Every harness starts from an ARBITRARY valid state (constructed from
//! solver variables, see `setup`), runs ONE call of the real map logic and compares with the ideal
//! map; the representation invariant I2 (`inv_ok`) is asserted afterwards, which is what makes the
//! single step an induction step over histories of any length (DESIGN 2).
use crate::filedb::inner::dbxxx::{DbXxxIntoIter, DbXxxIter, DbXxxIterMut, DbXxxKeys, DbXxxValues, FileDbXxxInner};
use crate::spec;
use crate::world::*;
use abyssiniandb::filedb::CheckFileDbMap;
use abyssiniandb::{DbBytes, DbMapKeyType, DbString, DbVu64, DbXxxBase, DbXxxObjectSafe, HashValue};
use std::cell::RefCell;
use std::rc::Rc;

pub fn ok<T>(r: std::io::Result<T>) -> T {
    match r {
        Ok(v) => v,
        Err(e) => {
            core::mem::forget(e);
            panic!("unexpected io error")
        }
    }
}

type K = ([u8; KMAX], usize);
type V = ([u8; VMAX], usize);

/// how symbolic keys of a key type are produced (DbVu64 keys must be valid vu64 encodings:
/// its comparison decodes the stored bytes)
pub trait KeyGen: DbMapKeyType {
    fn any_key() -> K;
}
impl KeyGen for DbBytes {
    fn any_key() -> K {
        let k: [u8; KMAX] = kani::any();
        let l: usize = kani::any();
        kani::assume(l <= KMAX);
        (k, l)
    }
}
impl KeyGen for DbString {
    fn any_key() -> K {
        <DbBytes as KeyGen>::any_key()
    }
}
impl KeyGen for DbVu64 {
    fn any_key() -> K {
        let v: u64 = kani::any();
        kani::assume(v < (1 << 14));
        let kt = DbVu64::from(v);
        let b = kt.as_bytes();
        let mut k = [0u8; KMAX];
        let mut i = 0;
        while i < b.len() && i < KMAX {
            k[i] = b[i];
            i += 1;
        }
        let l = b.len();
        core::mem::forget(kt);
        kani::assume(l <= KMAX);
        (k, l)
    }
}
fn any_val() -> V {
    let v: [u8; VMAX] = kani::any();
    let l: usize = kani::any();
    kani::assume(l <= VMAX);
    (v, l)
}
fn keq(a: &K, b: &K) -> bool {
    if a.1 != b.1 {
        return false;
    }
    let mut i = 0;
    while i < KMAX {
        if i < a.1 && a.0[i] != b.0[i] {
            return false;
        }
        i += 1;
    }
    true
}
fn veq(a: &V, b: &V) -> bool {
    if a.1 != b.1 {
        return false;
    }
    let mut i = 0;
    while i < VMAX {
        if i < a.1 && a.0[i] != b.0[i] {
            return false;
        }
        i += 1;
    }
    true
}
fn kt_of<KT: DbMapKeyType>(k: &K) -> KT {
    KT::from_bytes(&k.0[..k.1])
}
/// bucket of a key by the released placement hash (spec::hash_key_short; harnesses k_hash_* show
/// for every key type that the crate's hash_value() is this function)
fn bucket_of<KT: DbMapKeyType>(k: &K, nb: u64) -> u64 {
    let mut b = [0u8; 8];
    let mut i = 0;
    while i < KMAX {
        b[i] = k.0[i];
        i += 1;
    }
    spec::hash_key_short(&b, k.1) % nb
}
fn vec_is(v: &Vec<u8>, e: &V) -> bool {
    if v.len() != e.1 {
        return false;
    }
    let mut i = 0;
    while i < VMAX {
        if i < e.1 && v[i] != e.0[i] {
            return false;
        }
        i += 1;
    }
    true
}
fn is_small_class(s: u32) -> bool {
    s == 16 || s == 24 || s == 32 || s == 48 || s == 64
}

/// arbitrary valid state: 0..=max_n live entries over 1 or 2 buckets, any chain order, any
/// addresses (hence any offset-field widths), any slot sizes the crate could have left behind
fn setup<KT: KeyGen>(max_n: usize, free_slots: bool) -> usize {
    let w = w();
    let nb: u64 = kani::any();
    kani::assume(nb == 1 || nb == 2);
    w.nb = nb;
    let mut i = 0;
    while i <= VMAX {
        let c: u8 = kani::any();
        kani::assume(c <= NCLS);
        if i > 0 {
            kani::assume(w.need_of_len[i - 1] <= c);
        }
        w.need_of_len[i] = c;
        i += 1;
    }
    let pad: u64 = kani::any();
    kani::assume(pad <= 12);
    w.kpad = pad;
    let n: usize = kani::any();
    kani::assume(n <= max_n);
    let mut i = 0;
    while i < NPRE {
        if i < n {
            let k = KT::any_key();
            let mut j = 0;
            while j < i {
                kani::assume(!keq(&k, &(w.keys[j].key, w.keys[j].klen)));
                j += 1;
            }
            let ko = fresh_key_off();
            let vo = fresh_val_off();
            let b = bucket_of::<KT>(&k, nb) as usize;
            let next = w.heads[b];
            let size: u32 = kani::any();
            kani::assume(is_small_class(size) && size >= key_need(k.1, vo, next));
            w.keys[i] = KeyRec { exists: true, used: true, off: ko, size, key: k.0, klen: k.1, val_off: vo, next };
            let v = any_val();
            let cls: u8 = kani::any();
            kani::assume(cls <= NCLS && cls >= w.need_of_len[v.1]);
            w.vals[i] = ValRec { exists: true, used: true, off: vo, cls, val: v.0, vlen: v.1 };
            w.heads[b] = ko;
        }
        i += 1;
    }
    w.count = n as u64;
    if free_slots {
        // one slot on a free list in each store (they matter to the slot walk only)
        let fk: bool = kani::any();
        if fk {
            let o = fresh_key_off();
            let size: u32 = kani::any();
            kani::assume(is_small_class(size));
            w.keys[NPRE] = KeyRec { exists: true, used: false, off: o, size, key: kani::any(), klen: 0, val_off: 0, next: 0 };
        }
        let fv: bool = kani::any();
        if fv {
            let o = fresh_val_off();
            let cls: u8 = kani::any();
            kani::assume(cls <= NCLS);
            w.vals[NPRE] = ValRec { exists: true, used: false, off: o, cls, val: kani::any(), vlen: 0 };
        }
    }
    n
}

/// what the ideal map answers for `k` in the current state (independent of chains and buckets)
fn model_get(k: &K) -> Option<V> {
    let w = w();
    let mut r = None;
    let mut i = 0;
    while i < NK {
        if w.keys[i].exists && w.keys[i].used && keq(&(w.keys[i].key, w.keys[i].klen), k) {
            match vfind(w.keys[i].val_off) {
                Some(j) => {
                    assert!(w.vals[j].used, "I2: live key refers to a freed value record");
                    r = Some((w.vals[j].val, w.vals[j].vlen));
                }
                None => assert!(false, "I2: live key refers to no value record"),
            }
        }
        i += 1;
    }
    r
}
fn n_used_keys() -> u64 {
    let w = w();
    let mut c = 0;
    let mut i = 0;
    while i < NK {
        if w.keys[i].exists && w.keys[i].used {
            c += 1;
        }
        i += 1;
    }
    c
}
fn n_used_vals() -> u64 {
    let w = w();
    let mut c = 0;
    let mut i = 0;
    while i < NK {
        if w.vals[i].exists && w.vals[i].used {
            c += 1;
        }
        i += 1;
    }
    c
}

/// representation invariant I2 (written against the layout contract, shares nothing with dbxxx.rs)
fn inv_ok<KT: DbMapKeyType>() {
    let w = w();
    let mut visited = [false; NK];
    let mut reach = 0u64;
    let mut b = 0;
    while b < NB {
        if (b as u64) < w.nb {
            let mut cur = w.heads[b];
            let mut steps = 0;
            while cur != 0 && steps < NK {
                match kfind(cur) {
                    Some(i) => {
                        assert!(w.keys[i].used, "I2: chain runs through a freed key record");
                        assert!(!visited[i], "I2: key record reachable twice (cycle or shared tail)");
                        visited[i] = true;
                        reach += 1;
                        assert!(bucket_of::<KT>(&(w.keys[i].key, w.keys[i].klen), w.nb) == b as u64, "I2: key sits in a chain of the wrong bucket");
                        cur = w.keys[i].next;
                    }
                    None => {
                        assert!(false, "I2: chain link points to no key record");
                        cur = 0;
                    }
                }
                steps += 1;
            }
            assert!(cur == 0, "I2: chain longer than the number of records (cycle)");
        } else {
            assert!(w.heads[b] == 0);
        }
        b += 1;
    }
    let mut i = 0;
    while i < NK {
        if w.keys[i].exists && w.keys[i].used {
            assert!(visited[i], "I2: live key record not reachable from its bucket");
            // own, live, unshared value record
            match vfind(w.keys[i].val_off) {
                Some(j) => assert!(w.vals[j].used, "I2: live key refers to a freed value record"),
                None => assert!(false, "I2: live key refers to no value record"),
            }
            let mut j = 0;
            while j < i {
                if w.keys[j].exists && w.keys[j].used {
                    assert!(w.keys[j].val_off != w.keys[i].val_off, "I2: two keys share one value record");
                    assert!(!keq(&(w.keys[j].key, w.keys[j].klen), &(w.keys[i].key, w.keys[i].klen)), "I2: key stored twice");
                }
                j += 1;
            }
            assert!(w.keys[i].size >= key_need(w.keys[i].klen, w.keys[i].val_off, w.keys[i].next), "I2: key record larger than its slot");
        }
        if w.vals[i].exists && w.vals[i].used {
            assert!(w.vals[i].cls >= w.need_of_len[w.vals[i].vlen], "I2: value record larger than its slot");
        }
        i += 1;
    }
    assert!(w.count == reach, "I2: stored item count differs from the number of reachable keys");
    assert!(n_used_keys() == reach);
    assert!(n_used_vals() == reach, "I2: live value records differ from live key records (leak or double use)");
}

fn open<KT: DbMapKeyType>() -> FileDbXxxInner<KT> {
    ok(FileDbXxxInner::open_with_params("x", "m", Default::default()))
}

/// records what a key feeds to its hasher: one length prefix, then the key bytes
pub struct Collect {
    pub len: usize,
    pub nlen: u32,
    pub b: [u8; 8],
    pub n: usize,
    pub nwrite: u32,
}
impl std::hash::Hasher for Collect {
    fn finish(&self) -> u64 {
        0
    }
    fn write(&mut self, bytes: &[u8]) {
        self.nwrite += 1;
        self.n = bytes.len();
        let mut i = 0;
        while i < KMAX {
            if i < bytes.len() {
                self.b[i] = bytes[i];
            }
            i += 1;
        }
    }
    fn write_usize(&mut self, i: usize) {
        self.nlen += 1;
        self.len = i;
    }
}
/// stand-in for `HashValue::hash_value` at layer M: the released placement hash of what the key
/// type's derived `Hash` feeds to the hasher.  Justified by the K-layer harnesses k_hash_*, which
/// show hash_value() == spec::hash_key for every key of every key type (and == hash_key_short for
/// keys up to 8 bytes).  The real MyHasher costs ~100 s per call under CBMC.
pub trait StubHash: std::hash::Hash {
    fn stub_hash(&self) -> u64 {
        let mut c = Collect { len: 0, nlen: 0, b: [0; 8], n: 0, nwrite: 0 };
        self.hash(&mut c);
        assert!(c.nlen == 1 && c.nwrite <= 1 && c.len == c.n && c.n <= KMAX, "key feeds its hasher something else than length + bytes");
        spec::hash_key_short(&c.b, c.n)
    }
}
impl<T: std::hash::Hash> StubHash for T {}

// ------------------------------------------------------------------------------------ put
fn put_step<KT: KeyGen>(want_present: bool) {
    let n = setup::<KT>(NPRE, false);
    let mut m = open::<KT>();
    let k = KT::any_key();
    let o = KT::any_key();
    kani::assume(!keq(&k, &o));
    let was = model_get(&k);
    kani::assume(was.is_some() == want_present);
    let before_o = model_get(&o);
    let v = any_val();
    let kt: KT = kt_of(&k);
    ok(m.put_kt(&kt, &v.0[..v.1]));
    // ideal map
    match model_get(&k) {
        Some(g) => assert!(veq(&g, &v), "put: the key does not hold the value just put"),
        None => assert!(false, "put: the key is absent afterwards"),
    }
    let after_o = model_get(&o);
    match (before_o, after_o) {
        (Some(a), Some(b)) => assert!(veq(&a, &b), "put: another entry changed its value"),
        (None, None) => (),
        _ => assert!(false, "put: another entry appeared or vanished"),
    }
    assert!(ok(m.len()) == n as u64 + if want_present { 0 } else { 1 }, "put: len differs from the ideal map");
    inv_ok::<KT>();
    let w = w();
    // storage accounting: nothing leaks, nothing is freed twice (the stores assert the latter)
    if want_present {
        assert!(w.val_added == w.val_moves && w.val_freed == w.val_moves, "put: value records leaked or lost");
        assert!(w.key_added == w.key_moves && w.key_freed == w.key_moves, "put: key records leaked or lost");
    } else {
        assert!(w.val_added == 1 && w.val_freed == 0 && w.key_added == 1 && w.key_freed == 0, "put: a new entry must add exactly one record to each store");
    }
    assert!(w.dirty[0], "put: value store untouched");
    kani::cover!(n == NPRE, "largest pre-state");
    kani::cover!(w.nb == 2, "two buckets");
    if want_present {
        kani::cover!(w.val_moves == 1, "value record moved");
        kani::cover!(w.key_moves == 1, "key record moved");
        kani::cover!(w.key_moves >= 2, "relocation cascade: the predecessor moved too");
        kani::cover!(w.key_moves >= 1 && w.head_writes >= 1, "moved key was (or became) head of its chain");
    }
    core::mem::forget(kt);
    core::mem::forget(m);
}

/// cross-check of the induction (DESIGN 2): two real calls in a row on one handle - what the
/// one-step harnesses conclude from I2 is observed directly through the real lookup code
fn put_then_get<KT: KeyGen>() {
    let n = setup::<KT>(NPRE, false);
    let mut m = open::<KT>();
    let k = KT::any_key();
    let o = KT::any_key();
    kani::assume(!keq(&k, &o));
    let before_o = model_get(&o);
    let v = any_val();
    let kt: KT = kt_of(&k);
    let ot: KT = kt_of(&o);
    ok(m.put_kt(&kt, &v.0[..v.1]));
    let g = ok(m.get_kt(&kt));
    match &g {
        Some(a) => assert!(vec_is(a, &v), "get after put does not return the value put"),
        None => assert!(false, "get after put finds nothing"),
    }
    let go = ok(m.get_kt(&ot));
    match (&go, &before_o) {
        (Some(a), Some(b)) => assert!(vec_is(a, b), "get of another key changed after a put"),
        (None, None) => (),
        _ => assert!(false, "another key appeared or vanished after a put"),
    }
    let d = ok(m.del_kt(&kt));
    match &d {
        Some(a) => assert!(vec_is(a, &v), "delete after put does not return the value put"),
        None => assert!(false, "delete after put finds nothing"),
    }
    assert!(!ok(m.includes_key_kt(&kt)), "key still present after put + delete");
    inv_ok::<KT>();
    kani::cover!(w().key_moves >= 1, "a key record moved on the way");
    core::mem::forget((g, go, d));
    core::mem::forget((kt, ot));
    core::mem::forget(m);
}

// ------------------------------------------------------------------------------------ delete
fn del_step<KT: KeyGen>(want_present: bool) {
    let n = setup::<KT>(NPRE, false);
    let mut m = open::<KT>();
    let k = KT::any_key();
    let o = KT::any_key();
    kani::assume(!keq(&k, &o));
    let was = model_get(&k);
    kani::assume(was.is_some() == want_present);
    let before_o = model_get(&o);
    let kt: KT = kt_of(&k);
    let r = ok(m.del_kt(&kt));
    match (&r, &was) {
        (Some(g), Some(e)) => assert!(vec_is(g, e), "delete: returned value differs from the stored one"),
        (None, None) => (),
        _ => assert!(false, "delete: result differs from the ideal map"),
    }
    assert!(model_get(&k).is_none(), "delete: the key is still present");
    let after_o = model_get(&o);
    match (before_o, after_o) {
        (Some(a), Some(b)) => assert!(veq(&a, &b), "delete: another entry changed its value"),
        (None, None) => (),
        _ => assert!(false, "delete: another entry appeared or vanished"),
    }
    assert!(ok(m.len()) == n as u64 - if want_present { 1 } else { 0 }, "delete: len differs from the ideal map");
    inv_ok::<KT>();
    let w = w();
    if want_present {
        // both records of the entry are freed, and nothing else except moved records
        assert!(w.val_freed == 1 && w.val_added == 0, "delete: exactly the value record of the entry is freed");
        assert!(w.key_freed == 1 + w.key_moves && w.key_added == w.key_moves, "delete: exactly the key record of the entry is freed");
    } else {
        assert!(w.val_freed == 0 && w.key_freed == 0 && w.val_added == 0 && w.key_added == 0);
    }
    kani::cover!(n == NPRE, "largest pre-state");
    if want_present {
        kani::cover!(w.head_writes == 0, "deleted from inside a chain");
        kani::cover!(w.head_writes >= 1, "deleted the head of a chain");
        kani::cover!(w.key_moves >= 1, "predecessor moved while being relinked");
    }
    core::mem::forget(r);
    core::mem::forget(kt);
    core::mem::forget(m);
}

// ------------------------------------------------------------------------------------ read-only calls
fn lookup_step<KT: KeyGen>() {
    let n = setup::<KT>(NPRE, false);
    let mut m = open::<KT>();
    ok(m.flush()); // a handle with nothing pending
    let k = KT::any_key();
    let e = model_get(&k);
    let kt: KT = kt_of(&k);
    w().ro = true;
    let g = ok(m.get_kt(&kt));
    match (&g, &e) {
        (Some(a), Some(b)) => assert!(vec_is(a, b), "get: value differs from the ideal map"),
        (None, None) => (),
        _ => assert!(false, "get: presence differs from the ideal map"),
    }
    assert!(ok(m.includes_key_kt(&kt)) == e.is_some(), "includes_key differs from the ideal map");
    assert!(ok(m.len()) == n as u64, "len differs from the ideal map");
    assert!(ok(m.is_empty()) == (n == 0), "is_empty differs from the ideal map");
    ok(m.read_fill_buffer());
    // flush / sync on an unmodified map must not touch anything
    let kind: u8 = kani::any();
    let fl0 = w().flushed;
    match kind % 3 {
        0 => ok(m.flush()),
        1 => ok(m.sync_all()),
        _ => ok(m.sync_data()),
    }
    w().ro = false;
    let w = w();
    assert!(!w.dirty[0] && !w.dirty[1] && !w.dirty[2], "a read-only call left a store with pending writes");
    kani::cover!(e.is_some() && n == NPRE, "hit in the largest pre-state");
    kani::cover!(e.is_none() && n == NPRE, "miss in the largest pre-state");
    core::mem::forget(g);
    core::mem::forget(kt);
    core::mem::forget(m);
}

// ------------------------------------------------------------------------------------ iteration
/// which stored entry is (k, v)?  NK = none
fn entry_index(kb: &[u8], vb: Option<&Vec<u8>>) -> usize {
    let w = w();
    let mut hit = NK;
    let mut j = 0;
    while j < NK {
        if w.keys[j].exists && w.keys[j].used && w.keys[j].klen == kb.len() {
            let mut e = true;
            let mut t = 0;
            while t < KMAX {
                if t < kb.len() && kb[t] != w.keys[j].key[t] {
                    e = false;
                }
                t += 1;
            }
            if e {
                hit = j;
            }
        }
        j += 1;
    }
    if hit < NK {
        if let Some(v) = vb {
            match vfind(w.keys[hit].val_off) {
                Some(vi) => assert!(vec_is(v, &(w.vals[vi].val, w.vals[vi].vlen)), "iteration: key paired with a value that is not its current value"),
                None => assert!(false),
            }
        }
    }
    hit
}
fn iter_step<KT: KeyGen>(flavour: u8) {
    let n = setup::<KT>(NPRE, false);
    let m = open::<KT>();
    let rc = Rc::new(RefCell::new(m));
    ok(rc.borrow_mut().flush());
    w().ro = true;
    let mut seen = [false; NK];
    macro_rules! drive {
        ($it:expr, $conv:expr) => {{
            let mut it = $it;
            let mut i = 0;
            while i < NPRE {
                if i < n {
                    assert!(it.size_hint() == (n - i, Some(n - i)), "size_hint is not the number of remaining entries");
                    assert!(it.len() == n - i);
                    match it.next() {
                        Some(item) => {
                            let hit = $conv(&item);
                            assert!(hit < NK, "iteration yielded something that is not stored");
                            assert!(!seen[hit], "iteration yielded an entry twice");
                            seen[hit] = true;
                            core::mem::forget(item);
                        }
                        None => assert!(false, "iteration ended before every entry was yielded"),
                    }
                }
                i += 1;
            }
            assert!(it.size_hint() == (0, Some(0)), "size_hint after the last entry");
            assert!(it.next().is_none(), "iteration yielded more items than len()");
            assert!(it.next().is_none(), "iterator came back to life after the end");
            core::mem::forget(it);
        }};
    }
    match flavour {
        0 => drive!(ok(DbXxxIterMut::<KT>::new(rc.clone())), |it: &(KT, Vec<u8>)| entry_index(it.0.as_bytes(), Some(&it.1))),
        1 => drive!(ok(DbXxxIter::<KT>::new(rc.clone())), |it: &(KT, Vec<u8>)| entry_index(it.0.as_bytes(), Some(&it.1))),
        2 => drive!(ok(DbXxxIntoIter::<KT>::new(rc.clone())), |it: &(KT, Vec<u8>)| entry_index(it.0.as_bytes(), Some(&it.1))),
        3 => drive!(ok(DbXxxKeys::<KT>::new(rc.clone())), |it: &KT| entry_index(it.as_bytes(), None)),
        _ => {
            // values(): the multiset of values; each yielded value is matched to a distinct live entry
            let mut it = ok(DbXxxValues::<KT>::new(rc.clone()));
            let mut i = 0;
            while i < NPRE {
                if i < n {
                    assert!(it.size_hint() == (n - i, Some(n - i)), "size_hint is not the number of remaining entries");
                    match it.next() {
                        Some(v) => {
                            let w = w();
                            let mut hit = NK;
                            let mut j = 0;
                            while j < NK {
                                if hit == NK && !seen[j] && w.keys[j].exists && w.keys[j].used {
                                    if let Some(vi) = vfind(w.keys[j].val_off) {
                                        if vec_is(&v, &(w.vals[vi].val, w.vals[vi].vlen)) {
                                            hit = j;
                                        }
                                    }
                                }
                                j += 1;
                            }
                            assert!(hit < NK, "values(): yielded a value that no remaining entry holds");
                            seen[hit] = true;
                            core::mem::forget(v);
                        }
                        None => assert!(false, "values(): ended early"),
                    }
                }
                i += 1;
            }
            assert!(it.size_hint() == (0, Some(0)));
            assert!(it.next().is_none());
            assert!(it.next().is_none());
            core::mem::forget(it);
        }
    }
    w().ro = false;
    kani::cover!(n == NPRE, "largest pre-state");
    kani::cover!(n == NPRE && w().nb == 2 && w().heads[0] == 0, "first bucket empty, all entries chained in the second");
    kani::cover!(n == 0, "empty map");
    core::mem::forget(rc);
}

// ------------------------------------------------------------------------------------ flush protocol
/// C03 / C16: from a CLEAN handle (flushed once), one update, then flush / sync_all / sync_data
/// with the 1st, 2nd, 3rd or no store request failing
fn flush_step<KT: KeyGen>(op: u8, faults: bool) {
    let n = setup::<KT>(NPRE, false);
    let mut m = open::<KT>();
    let created: bool = kani::any();
    if !created {
        // a handle with nothing pending (a freshly opened handle may have created its files)
        ok(m.flush());
    } else {
        // freshly opened: opening may have written three headers
        touch(0);
        touch(1);
        touch(2);
    }
    {
        let w = w();
        w.flushed = [0; 3];
        w.synced_all = [0; 3];
        w.synced_data = [0; 3];
        w.norder = 0;
    }
    let k = KT::any_key();
    let kt: KT = kt_of(&k);
    let v = any_val();
    match op {
        0 => ok(m.put_kt(&kt, &v.0[..v.1])),
        1 => {
            let r = ok(m.del_kt(&kt));
            core::mem::forget(r);
        }
        _ => (), // no update at all
    }
    let touched = w().dirty;
    let expect = model_get(&k);
    let f: u8 = kani::any();
    if faults {
        kani::assume(f < 3);
    } else {
        kani::assume(f == 255);
    }
    w().fault_at = f;
    w().calls = 0;
    let kind: u8 = kani::any();
    kani::assume(kind < 3);
    let r = match kind {
        0 => m.flush(),
        1 => m.sync_all(),
        _ => m.sync_data(),
    };
    let any_touched = touched[0] || touched[1] || touched[2];
    match r {
        Ok(()) => {
            let w = w();
            // durability: nothing written before the call is still only in a buffer
            assert!(!w.dirty[0] && !w.dirty[1] && !w.dirty[2], "flush/sync returned Ok but a store still holds unwritten updates");
            if any_touched {
                assert!(f == 255, "a failing store flush was swallowed");
                let mut i = 0;
                while i < 3 {
                    if touched[i] {
                        if kind == 1 {
                            assert!(w.synced_all[i] >= 1, "sync_all did not sync a modified file");
                        }
                        if kind == 2 {
                            assert!(w.synced_data[i] >= 1, "sync_data did not sync a modified file");
                        }
                    }
                    i += 1;
                }
            }
        }
        Err(e) => {
            core::mem::forget(e);
            assert!(f != 255, "flush failed without a fault");
            // in-memory view still right
            let g = ok(m.get_kt(&kt));
            match (&g, &expect) {
                (Some(a), Some(b)) => assert!(vec_is(a, b), "after a failed flush the map answers differently"),
                (None, None) => (),
                _ => assert!(false, "after a failed flush the map answers differently"),
            }
            core::mem::forget(g);
            // recovery: a later fault-free flush makes everything durable (this is what the dirty
            // flag of the handle is for; the flag itself is not looked at)
            w().fault_at = 255;
            ok(m.flush());
            let w = w();
            assert!(!w.dirty[0] && !w.dirty[1] && !w.dirty[2], "recovery flush left a store with unwritten updates");
        }
    }
    if faults {
        kani::cover!(f == 1 && any_touched, "key store flush failed");
        kani::cover!(f == 2 && any_touched, "table flush failed after the two record files were written");
    } else {
        kani::cover!(kind == 2 && any_touched, "sync_data with pending updates");
        kani::cover!(!created && any_touched && kind == 0, "flush after an update on a clean handle");
        kani::cover!(created, "freshly opened handle");
    }
    core::mem::forget(kt);
    core::mem::forget(m);
}

// ------------------------------------------------------------------------------------ statistics
/// stand-ins for RecordSizeStats::touch_size / LengthStats::touch_length (binary search +
/// Vec::insert: a memmove with a solver-chosen length, 38 GB under CBMC): they log the value
/// touched in the store model.  The harnesses read the log as a multiset; the real containers
/// are decided on their own by k_touch_size / k_touch_length (sorted histogram of the touches).
pub fn touch_size_stub<T: Copy + Ord>(_s: &mut abyssiniandb::filedb::RecordSizeStats<T>, p: abyssiniandb::filedb::verif::PieceSize<T>) {
    let w = w();
    assert!(w.ntouched < 8);
    w.touched[w.ntouched] = p.as_value();
    w.ntouched += 1;
}
pub fn touch_length_stub<T: Ord + Default + Copy>(_s: &mut abyssiniandb::filedb::LengthStats<T>, l: abyssiniandb::filedb::verif::Length<T>) {
    let w = w();
    assert!(w.ntouched < 8);
    w.touched[w.ntouched] = l.as_value();
    w.ntouched += 1;
}

fn stats_step<KT: KeyGen + std::fmt::Display>(which: u8) {
    let n = setup::<KT>(NPRE, true);
    let m = open::<KT>();
    w().ro = true;
    // for EVERY value q: the counts reported for q add up to the live non-empty records with that
    // key length / value length / slot size (one universally quantified q instead of loops over
    // histograms); nothing is reported for length 0 (free slots and empty keys / values)
    let q: u32 = kani::any();
    let mut got = 0u64;
    let mut e = 0u64;
    let w_ = w();
    match which {
        0 => {
            let s = ok(m.key_length_stats());
            let mut j = 0;
            while j < NK {
                if j < w_.ntouched {
                    assert!(w_.touched[j] != 0, "key_length_stats counts empty keys / free slots");
                    if w_.touched[j] == q {
                        got += 1;
                    }
                }
                j += 1;
            }
            assert!(w_.ntouched <= NK);
            let mut i = 0;
            while i < NK {
                if w_.keys[i].exists && w_.keys[i].used && w_.keys[i].klen > 0 && w_.keys[i].klen as u32 == q {
                    e += 1;
                }
                i += 1;
            }
            assert!(got == e, "key_length_stats: count for a length differs from the live non-empty keys of that length");
            core::mem::forget(s);
        }
        1 => {
            let s = ok(m.value_length_stats());
            let mut j = 0;
            while j < NK {
                if j < w_.ntouched {
                    assert!(w_.touched[j] != 0, "value_length_stats counts empty values / free slots");
                    if w_.touched[j] == q {
                        got += 1;
                    }
                }
                j += 1;
            }
            assert!(w_.ntouched <= NK);
            let mut i = 0;
            while i < NK {
                if w_.vals[i].exists && w_.vals[i].used && w_.vals[i].vlen > 0 && w_.vals[i].vlen as u32 == q {
                    e += 1;
                }
                i += 1;
            }
            assert!(got == e, "value_length_stats: count for a length differs from the live non-empty values of that length");
            core::mem::forget(s);
        }
        2 => {
            let s = ok(m.key_piece_size_stats());
            let mut j = 0;
            while j < NK {
                if j < w_.ntouched && w_.touched[j] == q {
                    got += 1;
                }
                j += 1;
            }
            assert!(w_.ntouched <= NK);
            let mut i = 0;
            while i < NK {
                if w_.keys[i].exists && w_.keys[i].used && w_.keys[i].klen > 0 && w_.keys[i].size == q {
                    e += 1;
                }
                i += 1;
            }
            assert!(got == e, "key_piece_size_stats: count for a slot size differs from the live non-empty key records of that size");
            core::mem::forget(s);
        }
        _ => {
            let s = ok(m.value_piece_size_stats());
            let mut j = 0;
            while j < NK {
                if j < w_.ntouched && w_.touched[j] == q {
                    got += 1;
                }
                j += 1;
            }
            assert!(w_.ntouched <= NK);
            let mut i = 0;
            while i < NK {
                if w_.vals[i].exists && w_.vals[i].used && w_.vals[i].vlen > 0 && 16 + 8 * w_.vals[i].cls as u32 == q {
                    e += 1;
                }
                i += 1;
            }
            assert!(got == e, "value_piece_size_stats: count for a slot size differs from the live non-empty value records of that size");
            core::mem::forget(s);
        }
    }
    w().ro = false;
    kani::cover!(n == NPRE && got == 2, "two records in one histogram cell");
    kani::cover!(n == NPRE && got == 1, "a cell with one record");
    core::mem::forget(m);
}

// ------------------------------------------------------------------------------------ proofs
macro_rules! hproof {
    ($name:ident, $body:expr) => {
        #[kani::proof]
        #[kani::unwind(6)]
        #[kani::stub(abyssiniandb::HashValue::hash_value, StubHash::stub_hash)]
        fn $name() {
            $body;
        }
    };
}
// (no `paste` crate offline: the names are written out)
hproof!(m_put_new_bytes, put_step::<DbBytes>(false));
hproof!(m_put_over_bytes, put_step::<DbBytes>(true));
hproof!(m_del_hit_bytes, del_step::<DbBytes>(true));
hproof!(m_del_miss_bytes, del_step::<DbBytes>(false));
hproof!(m_lookup_bytes, lookup_step::<DbBytes>());
hproof!(m_iter_mut_bytes, iter_step::<DbBytes>(0));
hproof!(m_iter_bytes, iter_step::<DbBytes>(1));
hproof!(m_into_iter_bytes, iter_step::<DbBytes>(2));
hproof!(m_keys_bytes, iter_step::<DbBytes>(3));
hproof!(m_values_bytes, iter_step::<DbBytes>(4));
hproof!(m_flush_put_bytes, flush_step::<DbBytes>(0, false));
hproof!(m_flush_del_bytes, flush_step::<DbBytes>(1, false));
hproof!(m_flush_noop_bytes, flush_step::<DbBytes>(2, false));
hproof!(m_fault_put_bytes, flush_step::<DbBytes>(0, true));
hproof!(m_fault_del_bytes, flush_step::<DbBytes>(1, true));
macro_rules! sproof {
    ($name:ident, $body:expr) => {
        #[kani::proof]
        #[kani::unwind(6)]
        #[kani::stub(abyssiniandb::HashValue::hash_value, StubHash::stub_hash)]
        #[kani::stub(abyssiniandb::filedb::RecordSizeStats::touch_size, touch_size_stub)]
        #[kani::stub(abyssiniandb::filedb::LengthStats::touch_length, touch_length_stub)]
        fn $name() {
            $body;
        }
    };
}
sproof!(m_stats_klen_bytes, stats_step::<DbBytes>(0));
sproof!(m_stats_vlen_bytes, stats_step::<DbBytes>(1));
sproof!(m_stats_ksize_bytes, stats_step::<DbBytes>(2));
sproof!(m_stats_vsize_bytes, stats_step::<DbBytes>(3));

hproof!(m_put_get_del_bytes, put_then_get::<DbBytes>());
hproof!(m_put_new_vu64, put_step::<DbVu64>(false));
hproof!(m_put_over_vu64, put_step::<DbVu64>(true));
hproof!(m_del_hit_vu64, del_step::<DbVu64>(true));
hproof!(m_del_miss_vu64, del_step::<DbVu64>(false));
hproof!(m_lookup_vu64, lookup_step::<DbVu64>());
hproof!(m_iter_mut_vu64, iter_step::<DbVu64>(0));
hproof!(m_keys_vu64, iter_step::<DbVu64>(3));

hproof!(m_put_new_string, put_step::<DbString>(false));
hproof!(m_put_over_string, put_step::<DbString>(true));
hproof!(m_del_hit_string, del_step::<DbString>(true));
hproof!(m_del_miss_string, del_step::<DbString>(false));
hproof!(m_lookup_string, lookup_step::<DbString>());
hproof!(m_iter_string, iter_step::<DbString>(1));
hproof!(m_values_string, iter_step::<DbString>(4));

/// vacuity twin: the constructed pre-state is satisfiable in its largest shape and satisfies I2
#[kani::proof]
#[kani::unwind(6)]
fn m_setup_reachable() {
    let n = setup::<DbBytes>(NPRE, true);
    inv_ok::<DbBytes>();
    kani::cover!(n == NPRE && w().nb == 2 && w().heads[0] != 0 && w().heads[1] != 0, "both buckets populated");
    kani::cover!(n == NPRE && w().nb == 1, "one chain holding every entry");
}


