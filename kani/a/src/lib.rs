//! Layer A: the real default methods of `abyssiniandb::DbXxx` (lib.rs) over an ideal map.
#![allow(dead_code, unused_imports, unused_variables)]
extern crate alloc;

#[cfg(kani)]
mod proofs {
    use abyssiniandb::{DbMapKeyType, DbU64, DbXxx, DbXxxBase, DbXxxObjectSafe};
    use std::io::Result;
    pub const N: usize = 4; // capacity of the ideal map
    pub const VM: usize = 2; // value bytes
    pub const LOG: usize = 4;
    type V = ([u8; VM], usize);

    /// ideal map over u64 keys; also records the primitive calls it receives, in order
    pub struct Ideal {
        used: [bool; N],
        k: [u64; N],
        v: [V; N],
        puts: [(u64, V); LOG],
        nputs: usize,
        gets: usize,
        dels: usize,
    }
    fn vec_of(v: &V) -> Vec<u8> {
        let mut o = Vec::with_capacity(VM);
        let mut i = 0;
        while i < VM {
            if i < v.1 {
                o.push(v.0[i]);
            }
            i += 1;
        }
        o
    }
    fn val_of(b: &[u8]) -> V {
        kani::assume(b.len() <= VM);
        let mut v = [0u8; VM];
        let mut i = 0;
        while i < VM {
            if i < b.len() {
                v[i] = b[i];
            }
            i += 1;
        }
        (v, b.len())
    }
    fn veq(a: &V, b: &V) -> bool {
        if a.1 != b.1 {
            return false;
        }
        let mut i = 0;
        while i < VM {
            if i < a.1 && a.0[i] != b.0[i] {
                return false;
            }
            i += 1;
        }
        true
    }
    fn vec_is(a: &Vec<u8>, b: &V) -> bool {
        if a.len() != b.1 {
            return false;
        }
        let mut i = 0;
        while i < VM {
            if i < b.1 && a[i] != b.0[i] {
                return false;
            }
            i += 1;
        }
        true
    }
    impl Ideal {
        pub fn any(max_used: usize) -> Ideal {
            let mut m = Ideal { used: [false; N], k: kani::any(), v: [([0; VM], 0); N], puts: [(0, ([0; VM], 0)); LOG], nputs: 0, gets: 0, dels: 0 };
            let mut i = 0;
            while i < N {
                if i < max_used {
                    m.used[i] = kani::any();
                    let b: [u8; VM] = kani::any();
                    let l: usize = kani::any();
                    kani::assume(l <= VM);
                    m.v[i] = (b, l);
                    let mut j = 0;
                    while j < i {
                        kani::assume(!(m.used[i] && m.used[j] && m.k[i] == m.k[j]));
                        j += 1;
                    }
                }
                i += 1;
            }
            m
        }
        pub fn find(&self, k: u64) -> Option<usize> {
            let mut i = 0;
            while i < N {
                if self.used[i] && self.k[i] == k {
                    return Some(i);
                }
                i += 1;
            }
            None
        }
        pub fn lookup(&self, k: u64) -> Option<V> {
            self.find(k).map(|i| self.v[i])
        }
        pub fn put_raw(&mut self, k: u64, v: V) {
            let i = match self.find(k) {
                Some(i) => i,
                None => {
                    let mut j = 0;
                    while j < N && self.used[j] {
                        j += 1;
                    }
                    kani::assume(j < N);
                    j
                }
            };
            self.used[i] = true;
            self.k[i] = k;
            self.v[i] = v;
        }
        pub fn del_raw(&mut self, k: u64) -> Option<V> {
            match self.find(k) {
                Some(i) => {
                    self.used[i] = false;
                    Some(self.v[i])
                }
                None => None,
            }
        }
        pub fn snapshot(&self) -> ([bool; N], [u64; N], [V; N]) {
            (self.used, self.k, self.v)
        }
        /// same logical contents (compared through one universally quantified key)
        pub fn same_as(&self, o: &Ideal, probe: u64) -> bool {
            match (self.lookup(probe), o.lookup(probe)) {
                (Some(a), Some(b)) => veq(&a, &b),
                (None, None) => true,
                _ => false,
            }
        }
        pub fn clone_contents(&self) -> Ideal {
            Ideal { used: self.used, k: self.k, v: self.v, puts: [(0, ([0; VM], 0)); LOG], nputs: 0, gets: 0, dels: 0 }
        }
    }
    impl DbXxxBase for Ideal {
        fn len(&self) -> Result<u64> {
            let mut c = 0;
            let mut i = 0;
            while i < N {
                if self.used[i] {
                    c += 1;
                }
                i += 1;
            }
            Ok(c)
        }
        fn read_fill_buffer(&mut self) -> Result<()> {
            Ok(())
        }
        fn flush(&mut self) -> Result<()> {
            Ok(())
        }
        fn sync_all(&mut self) -> Result<()> {
            Ok(())
        }
        fn sync_data(&mut self) -> Result<()> {
            Ok(())
        }
    }
    impl DbXxxObjectSafe<DbU64> for Ideal {
        fn get_kt(&mut self, key: &DbU64) -> Result<Option<Vec<u8>>> {
            self.gets += 1;
            Ok(self.lookup(u64::from(key)).map(|v| vec_of(&v)))
        }
        fn put_kt(&mut self, key: &DbU64, value: &[u8]) -> Result<()> {
            let k = u64::from(key);
            let v = val_of(value);
            if self.nputs < LOG {
                self.puts[self.nputs] = (k, v);
            }
            self.nputs += 1;
            self.put_raw(k, v);
            Ok(())
        }
        fn del_kt(&mut self, key: &DbU64) -> Result<Option<Vec<u8>>> {
            self.dels += 1;
            Ok(self.del_raw(u64::from(key)).map(|v| vec_of(&v)))
        }
        fn includes_key_kt(&mut self, key: &DbU64) -> Result<bool> {
            Ok(self.find(u64::from(key)).is_some())
        }
    }
    impl DbXxx<DbU64> for Ideal {}
    fn ok<T>(r: Result<T>) -> T {
        match r {
            Ok(v) => v,
            Err(e) => {
                core::mem::forget(e);
                panic!()
            }
        }
    }
    /// stand-in for String::from_utf8_lossy (std's UTF-8 validation does not get through CBMC in
    /// reasonable memory): an injective-enough, non-identity ASCII marker decoding.  The harnesses
    /// check the COMPOSITION done by lib.rs (which value is decoded, where it lands), not std.
    pub fn lossy_stub(v: &[u8]) -> std::borrow::Cow<'_, str> {
        let mut o: Vec<u8> = Vec::with_capacity(VM);
        let mut i = 0;
        while i < VM {
            if i < v.len() {
                o.push((v[i] & 0x3f) + 0x40);
            }
            i += 1;
        }
        kani::assume(v.len() <= VM);
        std::borrow::Cow::Owned(unsafe { String::from_utf8_unchecked(o) })
    }
    fn marker(x: &V) -> V {
        let mut b = [0u8; VM];
        let mut i = 0;
        while i < VM {
            if i < x.1 {
                b[i] = (x.0[i] & 0x3f) + 0x40;
            }
            i += 1;
        }
        (b, x.1)
    }
    fn str_is(s: &String, e: &V) -> bool {
        let b = s.as_bytes();
        if b.len() != e.1 {
            return false;
        }
        let mut i = 0;
        while i < VM {
            if i < e.1 && b[i] != e.0[i] {
                return false;
            }
            i += 1;
        }
        true
    }
    fn ascii(c: &[u8], l: usize) -> String {
        let mut o: Vec<u8> = Vec::with_capacity(VM);
        let mut i = 0;
        while i < VM {
            if i < l {
                o.push(c[i]);
            }
            i += 1;
        }
        unsafe { String::from_utf8_unchecked(o) }
    }
    fn any_val() -> V {
        let b: [u8; VM] = kani::any();
        let l: usize = kani::any();
        kani::assume(l <= VM);
        (b, l)
    }

    /// bulk_get: position i holds what get of the i-th key returns - ANY batch of 3 (repeats allowed)
    #[kani::proof]
    #[kani::unwind(6)]
    fn a_bulk_get3() {
        let mut m = Ideal::any(3);
        let q: [u64; 3] = kani::any();
        let e = [m.lookup(q[0]), m.lookup(q[1]), m.lookup(q[2])];
        let before = m.clone_contents();
        let r = ok(m.bulk_get(&[&q[0], &q[1], &q[2]]));
        assert!(r.len() == 3, "bulk_get: result length differs from the batch length");
        let mut i = 0;
        while i < 3 {
            match (&r[i], &e[i]) {
                (Some(v), Some(x)) => assert!(vec_is(v, x), "bulk_get: position i does not hold the value of the i-th key"),
                (None, None) => (),
                _ => assert!(false, "bulk_get: presence at position i differs from get of the i-th key"),
            }
            i += 1;
        }
        let p: u64 = kani::any();
        assert!(m.same_as(&before, p), "bulk_get changed the map");
        kani::cover!(q[0] > q[1] && q[1] > q[2], "descending batch");
        kani::cover!(q[1] < q[2] && q[2] < q[0] && e[0].is_some() && e[1].is_none(), "rotated batch with different answers");
        kani::cover!(q[0] == q[2], "repeated key");
        core::mem::forget(r);
    }
    /// bulk_get_string = bulk_get composed with lossy UTF-8 decoding, position by position
    #[kani::proof]
    #[kani::unwind(6)]
    #[kani::stub(alloc::string::String::from_utf8_lossy, lossy_stub)]
    fn a_bulk_get_string2() {
        let mut m = Ideal::any(2);
        let q: [u64; 2] = kani::any();
        let e = [m.lookup(q[0]), m.lookup(q[1])];
        let r = ok(m.bulk_get_string(&[&q[0], &q[1]]));
        assert!(r.len() == 2);
        let mut i = 0;
        while i < 2 {
            match (&r[i], &e[i]) {
                (Some(s), Some(x)) => assert!(str_is(s, &marker(x)), "bulk_get_string: position i is not the decoding of the value of the i-th key"),
                (None, None) => (),
                _ => assert!(false, "bulk_get_string: presence differs"),
            }
            i += 1;
        }
        core::mem::forget(r);
    }
    /// bulk_delete: batch of 3 WITHOUT repeated keys: position i = what delete of the i-th key
    /// returns; afterwards exactly those keys are gone
    #[kani::proof]
    #[kani::unwind(6)]
    fn a_bulk_delete3() {
        let mut m = Ideal::any(3);
        let q: [u64; 3] = kani::any();
        kani::assume(q[0] != q[1] && q[0] != q[2] && q[1] != q[2]);
        let e = [m.lookup(q[0]), m.lookup(q[1]), m.lookup(q[2])];
        let before = m.clone_contents();
        let r = ok(m.bulk_delete(&[&q[0], &q[1], &q[2]]));
        assert!(r.len() == 3);
        let mut i = 0;
        while i < 3 {
            match (&r[i], &e[i]) {
                (Some(v), Some(x)) => assert!(vec_is(v, x), "bulk_delete: position i does not hold the removed value of the i-th key"),
                (None, None) => (),
                _ => assert!(false, "bulk_delete: presence at position i differs from delete of the i-th key"),
            }
            i += 1;
        }
        let p: u64 = kani::any();
        if p == q[0] || p == q[1] || p == q[2] {
            assert!(m.lookup(p).is_none(), "bulk_delete left a key of the batch in the map");
        } else {
            assert!(m.same_as(&before, p), "bulk_delete touched a key outside the batch");
        }
        assert!(m.dels == 3);
        core::mem::forget(r);
    }
    /// bulk_put of 3 pairs without repeated keys leaves the map exactly as the individual puts would
    #[kani::proof]
    #[kani::unwind(6)]
    fn a_bulk_put3() {
        let mut m = Ideal::any(1);
        let mut ind = m.clone_contents();
        let q: [u64; 3] = kani::any();
        kani::assume(q[0] != q[1] && q[0] != q[2] && q[1] != q[2]);
        let v = [any_val(), any_val(), any_val()];
        let b0 = vec_of(&v[0]);
        let b1 = vec_of(&v[1]);
        let b2 = vec_of(&v[2]);
        ok(m.bulk_put(&[(&q[0], b0.as_slice()), (&q[1], b1.as_slice()), (&q[2], b2.as_slice())]));
        ind.put_raw(q[0], v[0]);
        ind.put_raw(q[1], v[1]);
        ind.put_raw(q[2], v[2]);
        let p: u64 = kani::any();
        assert!(m.same_as(&ind, p), "bulk_put differs from the individual puts");
        assert!(m.nputs == 3, "bulk_put did not put every pair exactly once");
        core::mem::forget((b0, b1, b2));
    }
    #[kani::proof]
    #[kani::unwind(6)]
    fn a_bulk_put_string2() {
        let mut m = Ideal::any(1);
        let mut ind = m.clone_contents();
        let q: [u64; 2] = kani::any();
        kani::assume(q[0] != q[1]);
        // ASCII strings of <= 2 bytes (any valid UTF-8 of that length)
        let c: [u8; 4] = kani::any();
        kani::assume(c[0] < 128 && c[1] < 128 && c[2] < 128 && c[3] < 128);
        let l0: usize = kani::any();
        let l1: usize = kani::any();
        kani::assume(l0 <= 2 && l1 <= 2);
        let s0 = ascii(&c[..2], l0);
        let s1 = ascii(&c[2..], l1);
        ok(m.bulk_put_string(&[(&q[0], s0.clone()), (&q[1], s1.clone())]));
        ind.put_raw(q[0], val_of(&c[..l0]));
        ind.put_raw(q[1], val_of(&c[2..2 + l1]));
        let p: u64 = kani::any();
        assert!(m.same_as(&ind, p), "bulk_put_string differs from the individual puts of the UTF-8 bytes");
        core::mem::forget((s0, s1));
    }
    /// put_from_iter applies the pairs in iteration order (repeated keys: the last one wins)
    #[kani::proof]
    #[kani::unwind(6)]
    fn a_put_from_iter3() {
        let mut m = Ideal::any(1);
        let mut ind = m.clone_contents();
        let q: [u64; 3] = kani::any();
        let v = [any_val(), any_val(), any_val()];
        let items = vec![(DbU64::from(q[0]), vec_of(&v[0])), (DbU64::from(q[1]), vec_of(&v[1])), (DbU64::from(q[2]), vec_of(&v[2]))];
        ok(m.put_from_iter(items.into_iter()));
        ind.put_raw(q[0], v[0]);
        ind.put_raw(q[1], v[1]);
        ind.put_raw(q[2], v[2]);
        let p: u64 = kani::any();
        assert!(m.same_as(&ind, p), "put_from_iter differs from puts in iteration order");
        assert!(m.nputs == 3);
        let mut i = 0;
        while i < 3 {
            assert!(m.puts[i].0 == q[i] && veq(&m.puts[i].1, &v[i]), "put_from_iter: i-th put is not the i-th pair");
            i += 1;
        }
        kani::cover!(q[0] == q[2] && !veq(&v[0], &v[2]), "repeated key, last wins");
    }
    /// the scalar conveniences: get/put/delete/includes_key convert the key and delegate;
    /// *_string variants = byte variants composed with UTF-8 encoding / lossy decoding
    #[kani::proof]
    #[kani::unwind(6)]
    #[kani::stub(alloc::string::String::from_utf8_lossy, lossy_stub)]
    fn a_scalar_and_string() {
        let mut m = Ideal::any(2);
        let k: u64 = kani::any();
        let e = m.lookup(k);
        match (ok(m.get(&k)), &e) {
            (Some(v), Some(x)) => {
                assert!(vec_is(&v, x));
                core::mem::forget(v);
            }
            (None, None) => (),
            _ => assert!(false, "get differs from get_kt of the converted key"),
        }
        assert!(ok(m.includes_key(&k)) == e.is_some());
        match (ok(m.get_string(&k)), &e) {
            (Some(s), Some(x)) => {
                assert!(str_is(&s, &marker(x)), "get_string is not the decoding of get");
                core::mem::forget(s);
            }
            (None, None) => (),
            _ => assert!(false, "get_string: presence differs"),
        }
        let c: [u8; 2] = kani::any();
        kani::assume(c[0] < 128 && c[1] < 128);
        let l: usize = kani::any();
        kani::assume(l <= 2);
        let s = ascii(&c, l);
        ok(m.put_string(&k, &s));
        match m.lookup(k) {
            Some(x) => assert!(veq(&x, &val_of(&c[..l])), "put_string does not store the UTF-8 bytes"),
            None => assert!(false),
        }
        let d = ok(m.delete_string(&k));
        match d {
            Some(t) => {
                assert!(str_is(&t, &marker(&val_of(&c[..l]))), "delete_string is not the decoding of the removed value");
                core::mem::forget(t);
            }
            None => assert!(false, "delete_string lost the entry"),
        }
        assert!(m.lookup(k).is_none());
        assert!(ok(m.is_empty()) == (ok(m.len()) == 0));
        core::mem::forget(s);
    }
}
