use std::ops::Deref;

/// this is buffer, but maybe slice.
#[derive(Debug, Clone)]
pub enum MaybeSlice<'a> {
    Slice(&'a [u8]),
    Buffer(Vec<u8>),
}

impl<'a> MaybeSlice<'a> {
    pub fn into_vec(self) -> Vec<u8> {
        match self {
            MaybeSlice::Slice(x) => x.to_vec(),
            MaybeSlice::Buffer(v) => v,
        }
    }
}

impl<'a> Deref for MaybeSlice<'a> {
    type Target = [u8];
    #[inline]
    fn deref(&self) -> &<Self as Deref>::Target {
        match self {
            MaybeSlice::Slice(x) => x,
            MaybeSlice::Buffer(v) => v,
        }
    }
}
