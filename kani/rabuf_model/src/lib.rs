//! In-memory byte model of rabuf 0.1.20's `BufFile`, patched in for symbolic execution
//! (`[patch.crates-io] rabuf = { path = ... }`).  It keeps rabuf's *observable* semantics:
//!   * the file is a byte array of logical length `end`; bytes beyond `end` read as zero and a
//!     read beyond `end` does not move `end` (rabuf zero-fills its chunks);
//!   * a write beyond `end` moves `end`; a seek beyond `end` extends the file (`set_len`);
//!   * `flush` writes everything buffered (here: counts, records the order, clears `dirty`),
//!     `sync_all`/`sync_data` = flush + the matching OS sync;
//!   * `with_capacity` requires at least two chunks (one chunk is pinned at offset zero by the
//!     `buf_pin_zero` feature and "remove all on overflow" needs room for another one).
//! What it does NOT model: chunking, eviction, the chunk index.  Those are dependency code and
//! are declared outside every claim (DESIGN 4, C07).  Domain restrictions found by the native
//! validation (`bin/validate models`, which drives the real rabuf and this model with the same
//! seeded scripts): (i) a read may run past the end of the file only inside the chunk that holds
//! the end - beyond that chunk the real buffer fails with UnexpectedEof, the model would return
//! zeros (layer-B harnesses assert that the position never ends more than 8 bytes beyond the
//! end); (ii) truncation: after set_len to a smaller size the real buffer keeps the stale bytes
//! of the cut-off tail in its chunk, the model zero-fills - the crate truncates only on the
//! error-recovery path of write_piece, which is outside every claim; (iii) `stream_position()`
//! is `seek(Current(0))` and therefore extends the file when the position is beyond its end - in
//! both.
use std::fs::File;
use std::io::{Error, ErrorKind, Read, Result, Seek, SeekFrom, Write};

pub mod maybe;
pub use maybe::MaybeSlice;

pub type BufFile = RaBuf<File>;

/// image handed to the next `BufFile::new/with_capacity/with_per_mille` (used when the real
/// `open_with_params` of the crate is executed with `OpenOptions::open` stubbed)
pub static mut NEXT_IMAGE: Option<(Vec<u8>, u64)> = None;
pub fn set_next_image(d: Vec<u8>, e: u64) {
    unsafe {
        *core::ptr::addr_of_mut!(NEXT_IMAGE) = Some((d, e));
    }
}
/// mode of the next buffer created through `BufFile::new/with_capacity/with_per_mille`
pub static mut NEXT_BULK: bool = false;
pub fn set_next_bulk(b: bool) {
    unsafe {
        *core::ptr::addr_of_mut!(NEXT_BULK) = b;
    }
}
/// read-only latch of the next buffer created through `BufFile::new/with_capacity/with_per_mille`
pub static mut NEXT_RO: bool = false;
pub fn set_next_ro(b: bool) {
    unsafe {
        *core::ptr::addr_of_mut!(NEXT_RO) = b;
    }
}
/// global event counter so that harnesses can order events of different files
pub static mut CLOCK: u32 = 0;
fn tick() -> u32 {
    unsafe {
        let c = &mut *core::ptr::addr_of_mut!(CLOCK);
        *c += 1;
        *c
    }
}

#[derive(Debug)]
pub struct RaBuf<T> {
    _file: Option<T>,
    pub data: Vec<u8>,
    pub pos: u64,
    pub end: u64,
    // ---- observation
    pub n_flush: u32,
    pub n_sync_all: u32,
    pub n_sync_data: u32,
    pub n_writes: u32,
    pub n_extend_by_seek: u32,
    pub n_set_len: u32,
    pub n_read_past_end: u32,
    pub t_last_write: u32,
    pub t_last_flush: u32,
    pub t_last_sync: u32,
    pub dirty: bool,
    /// chunk budget the crate asked for (0 = automatic)
    pub asked_chunks: u32,
    // ---- control
    /// read-only latch: any mutation while set is an assertion failure at the call site
    pub ro: bool,
    /// the next flush fails (models ENOSPC / EFBIG during write-back)
    pub fail_flush: bool,
    /// bulk mode is a COMPILE-TIME choice (cargo feature `bulk` of this model crate): multi-byte
    /// copies and zero fills use memcpy/memset instead of byte loops (loop-free for CBMC; contents
    /// become opaque to its constant propagation).  As a run-time flag both variants ended up in
    /// every formula (a codec harness went from 32 s to 305 s and 10 GB).  The field is kept so
    /// that harnesses can state which mode they need; it is asserted against the build.
    pub bulk: bool,
}

#[inline]
fn cut(cond: bool) {
    #[cfg(kani)]
    kani::assume(cond);
    #[cfg(not(kani))]
    assert!(cond, "rabuf model capacity exceeded");
}

impl BufFile {
    pub fn from_image(data: Vec<u8>, end: u64) -> Self {
        Self {
            _file: None,
            data,
            pos: 0,
            end,
            n_flush: 0,
            n_sync_all: 0,
            n_sync_data: 0,
            n_writes: 0,
            n_extend_by_seek: 0,
            n_set_len: 0,
            n_read_past_end: 0,
            t_last_write: 0,
            t_last_flush: 0,
            t_last_sync: 0,
            dirty: false,
            asked_chunks: 0,
            ro: false,
            fail_flush: false,
            bulk: false,
        }
    }
    fn take_next(file: File) -> Self {
        let (d, e) = unsafe { (*core::ptr::addr_of_mut!(NEXT_IMAGE)).take().unwrap() };
        let mut b = Self::from_image(d, e);
        b._file = Some(file);
        b.bulk = unsafe { *core::ptr::addr_of!(NEXT_BULK) };
        b.ro = unsafe { *core::ptr::addr_of!(NEXT_RO) };
        b
    }
    pub fn new(_name: &str, file: File) -> Result<Self> {
        Ok(Self::take_next(file))
    }
    pub fn with_capacity(_name: &str, file: File, chunk_size: u32, max_num_chunks: u16) -> Result<Self> {
        assert!(chunk_size.is_power_of_two(), "rabuf contract: chunk size is a power of two");
        assert!(max_num_chunks >= 2, "rabuf contract: a fixed buffer needs at least two chunks");
        let mut b = Self::take_next(file);
        b.asked_chunks = max_num_chunks as u32;
        Ok(b)
    }
    pub fn with_per_mille(_name: &str, file: File, chunk_size: u32, per_mille: u16) -> Result<Self> {
        assert!(chunk_size.is_power_of_two(), "rabuf contract: chunk size is a power of two");
        // rabuf sizes an automatic buffer as max(32 KiB, file size * per_mille / 1000) bytes, i.e.
        // that / chunk_size + 1 chunks.  With per_mille >= 1000 every chunk of the file fits; below
        // that the buffer must be able to hold a second chunk besides the pinned first one even
        // for a small file, or the first access beyond the first chunk never returns (D7).
        assert!(per_mille >= 1000 || 32 * 1024 / chunk_size >= 1, "rabuf contract: the minimum automatic buffer (32 KiB) must hold at least one chunk besides the pinned first one");
        Ok(Self::take_next(file))
    }
    pub fn clear(&mut self) -> Result<()> {
        self.flush()
    }
    pub fn prepare(&mut self, _offset: u64) -> Result<()> {
        Ok(())
    }
    pub fn read_fill_buffer(&mut self) -> Result<()> {
        Ok(())
    }
    #[inline]
    fn rd(&mut self, n: usize) -> usize {
        let p = self.pos as usize;
        cut(p + n <= self.data.len());
        if (p + n) as u64 > self.end {
            self.n_read_past_end += 1;
        }
        self.pos += n as u64;
        p
    }
    #[inline]
    fn wr(&mut self, n: usize) -> usize {
        assert!(!self.ro, "file written during a read-only call");
        let p = self.pos as usize;
        cut(p + n <= self.data.len());
        self.pos += n as u64;
        if self.end < self.pos {
            self.end = self.pos;
        }
        self.dirty = true;
        self.n_writes += 1;
        self.t_last_write = tick();
        p
    }
}

#[inline]
fn put_bytes_m(_bulk: bool, data: &mut [u8], p: usize, src: &[u8]) {
    if cfg!(feature = "bulk") {
        data[p..p + src.len()].copy_from_slice(src);
    } else {
        put_bytes(data, p, src);
    }
}
#[inline]
fn get_bytes_m(_bulk: bool, data: &[u8], p: usize, dst: &mut [u8]) {
    if cfg!(feature = "bulk") {
        let n = dst.len();
        dst.copy_from_slice(&data[p..p + n]);
    } else {
        get_bytes(data, p, dst);
    }
}
#[inline]
fn zero_bytes_m(_bulk: bool, data: &mut [u8], a: usize, b: usize) {
    if cfg!(feature = "bulk") {
        if a < b {
            data[a..b].fill(0);
        }
    } else {
        zero_bytes(data, a, b);
    }
}
#[inline]
fn put_bytes(data: &mut [u8], p: usize, src: &[u8]) {
    let mut i = 0;
    while i < src.len() {
        data[p + i] = src[i];
        i += 1;
    }
}
#[inline]
fn get_bytes(data: &[u8], p: usize, dst: &mut [u8]) {
    let mut i = 0;
    while i < dst.len() {
        dst[i] = data[p + i];
        i += 1;
    }
}
#[inline]
fn zero_bytes(data: &mut [u8], a: usize, b: usize) {
    let mut i = a;
    while i < b {
        data[i] = 0;
        i += 1;
    }
}

pub fn roundup_powerof2(mut v: u32) -> u32 {
    v -= 1;
    v |= v >> 1;
    v |= v >> 2;
    v |= v >> 4;
    v |= v >> 8;
    v |= v >> 16;
    v += 1;
    v
}

pub trait FileSetLen {
    fn set_len(&mut self, size: u64) -> Result<()>;
}
impl FileSetLen for BufFile {
    fn set_len(&mut self, size: u64) -> Result<()> {
        assert!(!self.ro, "file length changed during a read-only call");
        cut(size as usize <= self.data.len());
        // bytes between old and new end read as zero (sparse extension / truncation)
        let (a, b) = if size > self.end { (self.end as usize, size as usize) } else { (size as usize, self.end as usize) };
        zero_bytes_m(self.bulk, &mut self.data, a, b);
        self.end = size;
        if self.end < self.pos {
            self.pos = self.end;
        }
        self.dirty = true;
        self.n_set_len += 1;
        self.t_last_write = tick();
        Ok(())
    }
}

impl Seek for BufFile {
    fn seek(&mut self, pos: SeekFrom) -> Result<u64> {
        let new_pos = match pos {
            SeekFrom::Start(x) => x,
            SeekFrom::End(x) => {
                if x < 0 {
                    self.end - (-x) as u64
                } else {
                    self.end - x as u64
                }
            }
            SeekFrom::Current(x) => {
                if x < 0 {
                    self.pos - (-x) as u64
                } else {
                    self.pos + x as u64
                }
            }
        };
        if new_pos > self.end {
            self.n_extend_by_seek += 1;
            self.set_len(new_pos)?;
        }
        self.pos = new_pos;
        Ok(new_pos)
    }
}

pub trait FileSync {
    fn sync_all(&mut self) -> Result<()>;
    fn sync_data(&mut self) -> Result<()>;
}
impl FileSync for BufFile {
    fn sync_all(&mut self) -> Result<()> {
        self.flush()?;
        self.n_sync_all += 1;
        self.t_last_sync = tick();
        Ok(())
    }
    fn sync_data(&mut self) -> Result<()> {
        self.flush()?;
        self.n_sync_data += 1;
        self.t_last_sync = tick();
        Ok(())
    }
}

impl<T> Read for RaBuf<T> {
    fn read(&mut self, buf: &mut [u8]) -> Result<usize> {
        let n = buf.len();
        let p = self.pos as usize;
        cut(p + n <= self.data.len());
        if (p + n) as u64 > self.end {
            self.n_read_past_end += 1;
        }
        get_bytes_m(self.bulk, &self.data, p, buf);
        self.pos += n as u64;
        Ok(n)
    }
}
impl<T> Write for RaBuf<T> {
    fn write(&mut self, buf: &[u8]) -> Result<usize> {
        assert!(!self.ro, "file written during a read-only call");
        let n = buf.len();
        let p = self.pos as usize;
        cut(p + n <= self.data.len());
        put_bytes_m(self.bulk, &mut self.data, p, buf);
        self.pos += n as u64;
        if self.end < self.pos {
            self.end = self.pos;
        }
        self.dirty = true;
        self.n_writes += 1;
        self.t_last_write = tick();
        Ok(n)
    }
    fn flush(&mut self) -> Result<()> {
        if self.fail_flush {
            self.fail_flush = false;
            return Err(Error::from(ErrorKind::Other));
        }
        self.n_flush += 1;
        self.t_last_flush = tick();
        self.dirty = false;
        Ok(())
    }
}

pub trait SmallRead {
    fn read_u8(&mut self) -> Result<u8>;
    fn read_u16_le(&mut self) -> Result<u16>;
    fn read_u32_le(&mut self) -> Result<u32>;
    fn read_u64_le(&mut self) -> Result<u64>;
    fn read_max_8_bytes(&mut self, size: usize) -> Result<u64>;
    fn read_exact_small(&mut self, buf: &mut [u8]) -> Result<()>;
    fn read_exact_maybeslice(&mut self, size: usize) -> Result<MaybeSlice<'_>>;
}
impl SmallRead for BufFile {
    fn read_u8(&mut self) -> Result<u8> {
        let p = self.rd(1);
        Ok(self.data[p])
    }
    fn read_u16_le(&mut self) -> Result<u16> {
        let p = self.rd(2);
        let mut a = [0u8; 2];
        get_bytes(&self.data, p, &mut a);
        Ok(u16::from_le_bytes(a))
    }
    fn read_u32_le(&mut self) -> Result<u32> {
        let p = self.rd(4);
        let mut a = [0u8; 4];
        get_bytes(&self.data, p, &mut a);
        Ok(u32::from_le_bytes(a))
    }
    fn read_u64_le(&mut self) -> Result<u64> {
        let p = self.rd(8);
        let mut a = [0u8; 8];
        get_bytes(&self.data, p, &mut a);
        Ok(u64::from_le_bytes(a))
    }
    fn read_max_8_bytes(&mut self, size: usize) -> Result<u64> {
        let p = self.rd(size);
        let mut val = 0u64;
        let mut i = size;
        while i > 0 {
            i -= 1;
            val = val << 8 | self.data[p + i] as u64;
        }
        Ok(val)
    }
    fn read_exact_small(&mut self, buf: &mut [u8]) -> Result<()> {
        let n = buf.len();
        let p = self.rd(n);
        get_bytes_m(self.bulk, &self.data, p, buf);
        Ok(())
    }
    fn read_exact_maybeslice(&mut self, size: usize) -> Result<MaybeSlice<'_>> {
        let p = self.rd(size);
        let mut v = Vec::with_capacity(size);
        let mut i = 0;
        while i < size {
            v.push(self.data[p + i]);
            i += 1;
        }
        Ok(MaybeSlice::Buffer(v))
    }
}

pub trait SmallWrite {
    fn write_u8(&mut self, val: u8) -> Result<()>;
    fn write_u16_le(&mut self, val: u16) -> Result<()>;
    fn write_u32_le(&mut self, val: u32) -> Result<()>;
    fn write_u64_le(&mut self, val: u64) -> Result<()>;
    fn write_u64_le_slice(&mut self, val_slice: &[u64]) -> Result<()>;
    fn write_u64_le_slice2(&mut self, val_slice1: &[u64], val_slice2: &[u64]) -> Result<()>;
    fn write_all_small(&mut self, buf: &[u8]) -> Result<()>;
    fn write_zero(&mut self, size: u32) -> Result<()>;
}
impl SmallWrite for BufFile {
    fn write_u8(&mut self, val: u8) -> Result<()> {
        let p = self.wr(1);
        self.data[p] = val;
        Ok(())
    }
    fn write_u16_le(&mut self, val: u16) -> Result<()> {
        let p = self.wr(2);
        put_bytes(&mut self.data, p, &val.to_le_bytes());
        Ok(())
    }
    fn write_u32_le(&mut self, val: u32) -> Result<()> {
        let p = self.wr(4);
        put_bytes(&mut self.data, p, &val.to_le_bytes());
        Ok(())
    }
    fn write_u64_le(&mut self, val: u64) -> Result<()> {
        let p = self.wr(8);
        put_bytes(&mut self.data, p, &val.to_le_bytes());
        Ok(())
    }
    fn write_u64_le_slice(&mut self, s: &[u64]) -> Result<()> {
        for v in s {
            self.write_u64_le(*v)?;
        }
        Ok(())
    }
    fn write_u64_le_slice2(&mut self, a: &[u64], b: &[u64]) -> Result<()> {
        self.write_u64_le_slice(a)?;
        self.write_u64_le_slice(b)
    }
    fn write_all_small(&mut self, buf: &[u8]) -> Result<()> {
        let n = buf.len();
        let p = self.wr(n);
        put_bytes_m(self.bulk, &mut self.data, p, buf);
        Ok(())
    }
    fn write_zero(&mut self, size: u32) -> Result<()> {
        let n = size as usize;
        let p = self.wr(n);
        zero_bytes_m(self.bulk, &mut self.data, p, p + n);
        Ok(())
    }
}
