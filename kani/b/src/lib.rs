//! Layer B: the byte-level code of abyssiniandb (vfile.rs codecs, htx.rs table/bitmap/scan,
//! header writers and checkers, open_with_params) executed symbolically through the real crate,
//! over the in-memory byte model of rabuf (patched in).
#![allow(dead_code, unused_imports, unused_variables)]
extern crate alloc;

#[path = "../../../spec/format.rs"]
pub mod spec;

#[cfg(kani)]
mod proofs {
    use crate::spec;
    use abyssiniandb::filedb::verif::{self, HtxFile, VarFile};
    use abyssiniandb::filedb::verif::{KeyLength, KeyPieceOffset, KeyPieceSize, NodePieceOffset, ValueLength, ValuePieceOffset, ValuePieceSize};
    use rabuf::{BufFile, SmallRead, SmallWrite};

    pub fn ok<T>(r: std::io::Result<T>) -> T {
        match r {
            Ok(v) => v,
            Err(e) => {
                core::mem::forget(e);
                panic!("unexpected io error")
            }
        }
    }
    fn sym_image<const N: usize>() -> Vec<u8> {
        let a: [u8; N] = kani::any();
        a.to_vec()
    }

    // ------------------------------------------------------------------ field codecs (vfile.rs)
    const CW: usize = 40; // image size for codec harnesses
    const CP: u64 = 8; // position of the field under test

    /// write one field with the crate's codec at CP into a symbolic image, check the bytes
    /// against the documented vu64 pattern, that nothing else changed, and that the crate's
    /// reader returns the value and stops exactly behind it.
    fn codec_roundtrip(kind: u8, v: u64) {
        let img = sym_image::<CW>();
        let before: [u8; CW] = {
            let mut b = [0u8; CW];
            let mut i = 0;
            while i < CW {
                b[i] = img[i];
                i += 1;
            }
            b
        };
        let mut f = verif::val::var_file(BufFile::from_image(img, CW as u64));
        ok(f.seek_from_start(ValuePieceOffset::new(CP)));
        let stored: u64 = match kind {
            0 => {
                ok(f.write_piece_offset(ValuePieceOffset::new(v)));
                v / 8
            }
            1 => {
                ok(f.write_piece_size(ValuePieceSize::new(v as u32)));
                v / 8
            }
            2 => {
                ok(f.write_key_len(KeyLength::new(v as u32)));
                v
            }
            _ => {
                ok(f.write_value_len(ValueLength::new(v as u32)));
                v
            }
        };
        let (sb, sl) = spec::vu64_encode(stored);
        let pos: ValuePieceOffset = ok(f.seek_position());
        assert!(pos.as_value() == CP + sl as u64, "field width differs from the documented encoding");
        {
            let b = f.verif_buf();
            let mut i = 0;
            while i < CW {
                if i >= CP as usize && i < CP as usize + sl {
                    assert!(b.data[i] == sb[i - CP as usize], "field bytes differ from the documented encoding");
                } else {
                    assert!(b.data[i] == before[i], "codec touched a byte outside its field");
                }
                i += 1;
            }
            assert!(b.end == CW as u64);
        }
        ok(f.seek_from_start(ValuePieceOffset::new(CP)));
        let back: u64 = match kind {
            0 => {
                let o: ValuePieceOffset = ok(f.read_piece_offset());
                o.as_value()
            }
            1 => {
                let s: ValuePieceSize = ok(f.read_piece_size());
                s.as_value() as u64
            }
            2 => ok(f.read_key_len()).as_value() as u64,
            _ => ok(f.read_value_len()).as_value() as u64,
        };
        assert!(back == v, "field does not read back");
        let pos2: ValuePieceOffset = ok(f.seek_position());
        assert!(pos2.as_value() == CP + sl as u64, "reader stops at the wrong position");
        core::mem::forget(f);
    }
    #[kani::proof]
    #[kani::unwind(42)]
    fn b_codec_offset() {
        let v: u64 = kani::any();
        kani::assume(v % 8 == 0);
        codec_roundtrip(0, v);
    }
    #[kani::proof]
    #[kani::unwind(42)]
    fn b_codec_size() {
        let v: u32 = kani::any();
        kani::assume(v % 8 == 0);
        codec_roundtrip(1, v as u64);
    }
    #[kani::proof]
    #[kani::unwind(42)]
    fn b_codec_keylen() {
        let v: u32 = kani::any();
        codec_roundtrip(2, v as u64);
    }
    #[kani::proof]
    #[kani::unwind(42)]
    fn b_codec_vallen() {
        let v: u32 = kani::any();
        codec_roundtrip(3, v as u64);
    }
    #[kani::proof]
    #[kani::unwind(42)]
    fn b_codec_free_link() {
        let v: u64 = kani::any();
        let img = sym_image::<CW>();
        let mut before = [0u8; CW];
        let mut i = 0;
        while i < CW {
            before[i] = img[i];
            i += 1;
        }
        let mut f = verif::val::var_file(BufFile::from_image(img, CW as u64));
        ok(f.seek_from_start(ValuePieceOffset::new(CP)));
        ok(f.write_free_piece_offset(ValuePieceOffset::new(v)));
        let le = v.to_le_bytes();
        {
            let b = f.verif_buf();
            let mut i = 0;
            while i < CW {
                if i >= CP as usize && i < CP as usize + 8 {
                    assert!(b.data[i] == le[i - CP as usize], "free-list link is not 8 bytes little endian");
                } else {
                    assert!(b.data[i] == before[i]);
                }
                i += 1;
            }
        }
        ok(f.seek_from_start(ValuePieceOffset::new(CP)));
        let o: ValuePieceOffset = ok(f.read_free_piece_offset());
        assert!(o.as_value() == v);
        core::mem::forget(f);
    }

    /// write_zero_to_offset: zeros exactly [pos, target), never beyond, no-op when target <= pos
    #[kani::proof]
    #[kani::unwind(42)]
    fn b_zero_to_offset() {
        let img = sym_image::<CW>();
        let mut before = [0u8; CW];
        let mut i = 0;
        while i < CW {
            before[i] = img[i];
            i += 1;
        }
        let end: u64 = kani::any();
        kani::assume(end <= 32);
        let mut f = verif::val::var_file(BufFile::from_image(img, end));
        let p: u64 = kani::any();
        let t: u64 = kani::any();
        kani::assume(p <= end && t <= 36);
        ok(f.seek_from_start(ValuePieceOffset::new(p)));
        ok(f.write_zero_to_offset(ValuePieceOffset::new(t)));
        let b = f.verif_buf();
        let mut i = 0;
        while i < CW {
            let iu = i as u64;
            if iu >= p && iu < t {
                assert!(b.data[i] == 0, "padding byte not zero");
            } else if iu < end {
                assert!(b.data[i] == before[i], "zero fill touched a byte outside [pos, target)");
            }
            i += 1;
        }
        assert!(b.pos == if t > p { t } else { p });
        assert!(b.end == if t > end { t } else { end });
        core::mem::forget(f);
    }

    // ------------------------------------------------------------------ table file (htx.rs)
    /// table image for `n` buckets built from symbolic heads; bitmap consistent with the heads
    fn htx_image<const N: usize>(heads: &[u64; N], count: u64) -> (Vec<u8>, u64) {
        let n = N as u64;
        let bm = if N >= 8 { N / 8 } else { 1 };
        let total = 128 + 8 * N + bm;
        let mut img = vec![0u8; total + 16];
        let mut i = 0;
        while i < 8 {
            img[i] = spec::SIG_HTX[i];
            img[8 + i] = spec::TSIG_BYTES[i];
            i += 1;
        }
        let nb = n.to_le_bytes();
        let cb = count.to_le_bytes();
        i = 0;
        while i < 8 {
            img[16 + i] = nb[i];
            img[24 + i] = cb[i];
            i += 1;
        }
        let mut j = 0;
        while j < N {
            let le = heads[j].to_le_bytes();
            let mut k = 0;
            while k < 8 {
                img[128 + 8 * j + k] = le[k];
                k += 1;
            }
            if heads[j] != 0 {
                img[128 + 8 * N + j / 8] |= 1 << (j % 8);
            }
            j += 1;
        }
        (img, total as u64)
    }

    /// next_key_piece_offset(n, idx) = (j+1, head[j]) for the least non-empty j >= idx, else
    /// (>= n, 0); no write, no extension, position stays inside the file (+8 bytes read slack)
    fn scan_one<const N: usize>(f: &mut VarFile, heads: &[u64; N], idx: u64) {
        let n = N as u64;
        let (next, off) = ok(f.next_key_piece_offset(n, idx));
        let mut j = idx;
        let mut expect_j = n;
        while j < n {
            if heads[j as usize] != 0 && expect_j == n {
                expect_j = j;
            }
            j += 1;
        }
        if expect_j < n {
            assert!(off.as_value() == heads[expect_j as usize], "scan returned the wrong bucket head");
            assert!(next == expect_j + 1, "scan returned the wrong next index");
        } else {
            assert!(off.as_value() == 0, "scan invented an entry");
            assert!(next >= n, "scan stopped before the end of the table");
        }
    }
    fn scan_sym_idx<const N: usize>() {
        let heads: [u64; N] = kani::any();
        let (img, end) = htx_image(&heads, 0);
        let mut buf = BufFile::from_image(img, end);
        buf.ro = true;
        let mut f = verif::htx::var_file(buf);
        let idx: u64 = kani::any();
        kani::assume(idx < N as u64);
        scan_one(&mut f, &heads, idx);
        assert!(f.verif_buf().end == end && f.verif_buf().n_extend_by_seek == 0, "scan extended the file");
        kani::cover!(idx % 8 == 0, "bitmap path");
        kani::cover!(idx % 8 != 0, "linear path");
        core::mem::forget(f);
    }
    /// every group-aligned start index and one arbitrary residue start, table fully symbolic
    fn scan_all_groups<const N: usize>() {
        let heads: [u64; N] = kani::any();
        let (img, end) = htx_image(&heads, 0);
        let mut buf = BufFile::from_image(img, end);
        buf.ro = true;
        let mut f = verif::htx::var_file(buf);
        let mut g = 0u64;
        while g < N as u64 {
            scan_one(&mut f, &heads, g);
            g += 8;
        }
        assert!(f.verif_buf().end == end && f.verif_buf().n_extend_by_seek == 0, "scan extended the file");
        core::mem::forget(f);
    }
    #[kani::proof]
    #[kani::unwind(11)]
    fn b_scan_n1() {
        scan_sym_idx::<1>();
    }
    #[kani::proof]
    #[kani::unwind(11)]
    fn b_scan_n2() {
        scan_sym_idx::<2>();
    }
    #[kani::proof]
    #[kani::unwind(11)]
    fn b_scan_n4() {
        scan_sym_idx::<4>();
    }
    #[kani::proof]
    #[kani::unwind(11)]
    fn b_scan_n8() {
        scan_sym_idx::<8>();
    }
    #[kani::proof]
    #[kani::unwind(19)]
    fn b_scan_n16() {
        scan_sym_idx::<16>();
    }
}
