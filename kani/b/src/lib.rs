//! Layer B: the byte-level code of abyssiniandb (vfile.rs codecs, htx.rs table/bitmap/scan,
//! header writers and checkers, open_with_params) executed symbolically through the real crate,
//! over the in-memory byte model of rabuf (patched in).
#![allow(dead_code, unused_imports, unused_variables)]
extern crate alloc;

#[path = "../../../spec/format.rs"]
pub mod spec;

#[cfg(kani)]
mod proofs {
    use crate::spec;
    use abyssiniandb::filedb::verif::{self, HtxFile, VarFile};
    use abyssiniandb::filedb::verif::{KeyLength, KeyPieceOffset, KeyPieceSize, NodePieceOffset, ValueLength, ValuePieceOffset, ValuePieceSize};
    use rabuf::{BufFile, SmallRead, SmallWrite};

    pub fn ok<T>(r: std::io::Result<T>) -> T {
        match r {
            Ok(v) => v,
            Err(e) => {
                core::mem::forget(e);
                panic!("unexpected io error")
            }
        }
    }
    fn sym_image<const N: usize>() -> Vec<u8> {
        let a: [u8; N] = kani::any();
        a.to_vec()
    }

    // ------------------------------------------------------------------ field codecs (vfile.rs)
    const CW: usize = 40; // image size for codec harnesses
    const CP: u64 = 8; // position of the field under test

    /// write one field with the crate's codec at CP into a symbolic image, check the bytes
    /// against the documented vu64 pattern, that nothing else changed, and that the crate's
    /// reader returns the value and stops exactly behind it.
    fn codec_roundtrip(kind: u8, v: u64) {
        let before: [u8; CW] = kani::any();
        let mut f = verif::val::var_file(BufFile::from_image(before.to_vec(), CW as u64));
        ok(f.seek_from_start(ValuePieceOffset::new(CP)));
        let stored: u64 = match kind {
            0 => {
                ok(f.write_piece_offset(ValuePieceOffset::new(v)));
                v / 8
            }
            1 => {
                ok(f.write_piece_size(ValuePieceSize::new(v as u32)));
                v / 8
            }
            2 => {
                ok(f.write_key_len(KeyLength::new(v as u32)));
                v
            }
            _ => {
                ok(f.write_value_len(ValueLength::new(v as u32)));
                v
            }
        };
        let (sb, sl) = spec::vu64_encode(stored);
        let pos: ValuePieceOffset = ok(f.seek_position());
        assert!(pos.as_value() == CP + sl as u64, "field width differs from the documented encoding");
        {
            // one universally quantified byte position instead of a loop over the image
            let b = f.verif_buf();
            let i: usize = kani::any();
            kani::assume(i < CW);
            if i >= CP as usize && i < CP as usize + sl {
                assert!(b.data[i] == sb[i - CP as usize], "field bytes differ from the documented encoding");
            } else {
                assert!(b.data[i] == before[i], "codec touched a byte outside its field");
            }
            assert!(b.end == CW as u64);
        }
        ok(f.seek_from_start(ValuePieceOffset::new(CP)));
        let back: u64 = match kind {
            0 => {
                let o: ValuePieceOffset = ok(f.read_piece_offset());
                o.as_value()
            }
            1 => {
                let s: ValuePieceSize = ok(f.read_piece_size());
                s.as_value() as u64
            }
            2 => ok(f.read_key_len()).as_value() as u64,
            _ => ok(f.read_value_len()).as_value() as u64,
        };
        assert!(back == v, "field does not read back");
        let pos2: ValuePieceOffset = ok(f.seek_position());
        assert!(pos2.as_value() == CP + sl as u64, "reader stops at the wrong position");
        core::mem::forget(f);
    }
    #[kani::proof]
    #[kani::unwind(11)]
    fn b_codec_offset() {
        let v: u64 = kani::any();
        kani::assume(v % 8 == 0);
        codec_roundtrip(0, v);
    }
    #[kani::proof]
    #[kani::unwind(11)]
    fn b_codec_size() {
        let v: u32 = kani::any();
        kani::assume(v % 8 == 0);
        codec_roundtrip(1, v as u64);
    }
    #[kani::proof]
    #[kani::unwind(11)]
    fn b_codec_keylen() {
        let v: u32 = kani::any();
        codec_roundtrip(2, v as u64);
    }
    #[kani::proof]
    #[kani::unwind(11)]
    fn b_codec_vallen() {
        let v: u32 = kani::any();
        codec_roundtrip(3, v as u64);
    }
    #[kani::proof]
    #[kani::unwind(11)]
    fn b_codec_free_link() {
        let v: u64 = kani::any();
        let before: [u8; CW] = kani::any();
        let mut f = verif::val::var_file(BufFile::from_image(before.to_vec(), CW as u64));
        ok(f.seek_from_start(ValuePieceOffset::new(CP)));
        ok(f.write_free_piece_offset(ValuePieceOffset::new(v)));
        let le = v.to_le_bytes();
        {
            let b = f.verif_buf();
            let i: usize = kani::any();
            kani::assume(i < CW);
            if i >= CP as usize && i < CP as usize + 8 {
                assert!(b.data[i] == le[i - CP as usize], "free-list link is not 8 bytes little endian");
            } else {
                assert!(b.data[i] == before[i], "link codec touched a byte outside its field");
            }
        }
        ok(f.seek_from_start(ValuePieceOffset::new(CP)));
        let o: ValuePieceOffset = ok(f.read_free_piece_offset());
        assert!(o.as_value() == v);
        core::mem::forget(f);
    }

    /// write_zero_to_offset: zeros exactly [pos, target), never beyond, no-op when target <= pos
    #[kani::proof]
    #[kani::unwind(40)]
    fn b_zero_to_offset() {
        let before: [u8; CW] = kani::any();
        let end: u64 = kani::any();
        kani::assume(end <= 32);
        let mut f = verif::val::var_file(BufFile::from_image(before.to_vec(), end));
        let p: u64 = kani::any();
        let t: u64 = kani::any();
        kani::assume(p <= end && t <= 36);
        ok(f.seek_from_start(ValuePieceOffset::new(p)));
        ok(f.write_zero_to_offset(ValuePieceOffset::new(t)));
        let b = f.verif_buf();
        let i: usize = kani::any();
        kani::assume(i < CW);
        let iu = i as u64;
        if iu >= p && iu < t {
            assert!(b.data[i] == 0, "padding byte not zero");
        } else if iu < end {
            assert!(b.data[i] == before[i], "zero fill touched a byte outside [pos, target)");
        }
        assert!(b.pos == if t > p { t } else { p });
        assert!(b.end == if t > end { t } else { end });
        core::mem::forget(f);
    }

    /// the same for long runs (the padding of large slots): every byte of [pos, target) is zero
    /// whatever stale bytes were there, nothing else changes (universally quantified byte i)
    #[kani::proof]
    #[kani::unwind(10)]
    fn b_zero_to_offset_long() {
        let img: [u8; 2400] = kani::any();
        let end: u64 = kani::any();
        kani::assume(end <= 2300);
        let mut buf = BufFile::from_image(img.to_vec(), end);
        buf.bulk = true;
        let mut f = verif::val::var_file(buf);
        let p: u64 = kani::any();
        let t: u64 = kani::any();
        kani::assume(p <= end && t <= 2390);
        ok(f.seek_from_start(ValuePieceOffset::new(p)));
        ok(f.write_zero_to_offset(ValuePieceOffset::new(t)));
        let b = f.verif_buf();
        let i: usize = kani::any();
        kani::assume(i < 2400);
        let iu = i as u64;
        if iu >= p && iu < t {
            assert!(b.data[i] == 0, "padding byte not zero (stale content survives)");
        } else if iu < end {
            assert!(b.data[i] == img[i], "zero fill touched a byte outside [pos, target)");
        }
        assert!(b.pos == if t > p { t } else { p }, "position after the zero fill");
        assert!(b.end == if t > end { t } else { end }, "file length after the zero fill");
        kani::cover!(t > p + 1024, "run longer than 1 KiB");
        core::mem::forget(f);
    }

    // ------------------------------------------------------------------ table file (htx.rs)
    // A table file for N buckets is T = 128 + 8N + max(N/8, 1) + 8 fully symbolic bytes; only the
    // header words are pinned and the occupancy bitmap is constrained to agree with the bucket
    // heads ("bit <=> head != 0", the part of I2 that htx.rs maintains itself).
    #[inline]
    fn head(img: &[u8], j: usize) -> u64 {
        let p = 128 + 8 * j;
        u64::from_le_bytes([img[p], img[p + 1], img[p + 2], img[p + 3], img[p + 4], img[p + 5], img[p + 6], img[p + 7]])
    }
    /// bitmap byte g agrees with the heads of buckets 8g .. 8g+7
    #[inline]
    fn fix_group<const N: usize, const T: usize>(img: &[u8; T], g: usize) {
        let mut byte = 0u8;
        macro_rules! bit {
            ($k:expr) => {
                if 8 * g + $k < N && head(img, 8 * g + $k) != 0 {
                    byte |= 1 << $k;
                }
            };
        }
        bit!(0);
        bit!(1);
        bit!(2);
        bit!(3);
        bit!(4);
        bit!(5);
        bit!(6);
        bit!(7);
        kani::assume(img[128 + 8 * N + g] == byte);
    }
    fn table<const N: usize, const T: usize>() -> ([u8; T], u64) {
        let mut img: [u8; T] = kani::any();
        let nb = (N as u64).to_le_bytes();
        let mut i = 0;
        while i < 8 {
            img[i] = spec::SIG_HTX[i];
            img[8 + i] = spec::TSIG_BYTES[i];
            img[16 + i] = nb[i];
            i += 1;
        }
        let bm0 = 128 + 8 * N;
        let nbm = if N >= 8 { N / 8 } else { 1 };
        // (written without a loop so that the unwind bound of a harness is not driven by n / 8)
        macro_rules! g1 {
            ($g:expr) => {
                if $g < nbm {
                    fix_group::<N, T>(&img, $g);
                }
            };
        }
        macro_rules! g16 {
            ($b:expr) => {
                g1!($b);
                g1!($b + 1);
                g1!($b + 2);
                g1!($b + 3);
                g1!($b + 4);
                g1!($b + 5);
                g1!($b + 6);
                g1!($b + 7);
                g1!($b + 8);
                g1!($b + 9);
                g1!($b + 10);
                g1!($b + 11);
                g1!($b + 12);
                g1!($b + 13);
                g1!($b + 14);
                g1!($b + 15);
            };
        }
        g16!(0);
        if nbm > 16 {
            g16!(16);
        }
        if nbm > 32 {
            g16!(32);
            g16!(48);
        }
        assert!(nbm <= 64);
        // a table of fewer than 8 buckets is created without its bitmap byte (length 128 + 8N);
        // the byte appears with the first bucket write
        let mut end = (bm0 + nbm) as u64;
        if N < 8 {
            let has_bm: bool = kani::any();
            if !has_bm {
                kani::assume(img[bm0] == 0);
                end = bm0 as u64;
            }
        }
        // beyond the end of the file the buffer reads zeros
        let mut i = bm0 + nbm;
        while i < T {
            img[i] = 0;
            i += 1;
        }
        (img, end)
    }
    macro_rules! tsize {
        ($n:expr) => {
            128 + 8 * $n + (if $n >= 8 { $n / 8 } else { 1 }) + 8
        };
    }

    /// scan contract with one universally quantified bucket j:
    /// next_key_piece_offset(n, idx) = (r + 1, head[r]) for the least non-empty r >= idx, else
    /// (>= n, 0); read-only, no extension of the file, position stays at the file
    fn scan<const N: usize, const T: usize>(aligned: bool) {
        let (img, end) = table::<N, T>();
        let mut buf = BufFile::from_image(img.to_vec(), end);
        buf.ro = true;
        let mut f = verif::htx::var_file(buf);
        let n = N as u64;
        let idx: u64 = kani::any();
        kani::assume(idx < n);
        if aligned {
            kani::assume(idx % 8 == 0);
        }
        let (next, off) = ok(f.next_key_piece_offset(n, idx));
        let j: u64 = kani::any();
        kani::assume(j >= idx && j < n);
        if off.as_value() != 0 {
            assert!(next >= idx + 1 && next <= n, "scan: next index out of range");
            assert!(head(&img, (next - 1) as usize) == off.as_value(), "scan returned an offset that is not the head of the bucket before the next index");
            if j < next - 1 {
                assert!(head(&img, j as usize) == 0, "scan skipped a non-empty bucket");
            }
        } else {
            assert!(next >= n, "scan stopped before the end of the table without a result");
            assert!(head(&img, j as usize) == 0, "scan missed a non-empty bucket");
        }
        let b = f.verif_buf();
        assert!(b.end == end && b.n_extend_by_seek == 0 && b.n_set_len == 0, "scan changed the length of the file");
        assert!(b.pos <= end + 8, "scan left the position far beyond the end of the file");
        kani::cover!(off.as_value() != 0 && idx % 8 == 0 && next >= idx + 9, "hit found through the bitmap");
        kani::cover!(off.as_value() == 0, "nothing found");
        kani::cover!(idx + 8 >= n, "start in the last group");
        core::mem::forget(f);
    }
    /// the same contract from ONE concrete start index (cheap: every file position is concrete),
    /// table still fully symbolic; used in the quick tier for the start indices at which the three
    /// loops of the scan hand over to each other on a table of 128 buckets
    fn scan_at<const N: usize, const T: usize>(idx: u64) {
        let (img, end) = table::<N, T>();
        let mut buf = BufFile::from_image(img.to_vec(), end);
        buf.ro = true;
        let mut f = verif::htx::var_file(buf);
        let n = N as u64;
        let (next, off) = ok(f.next_key_piece_offset(n, idx));
        let j: u64 = kani::any();
        kani::assume(j >= idx && j < n);
        if off.as_value() != 0 {
            assert!(next >= idx + 1 && next <= n, "scan: next index out of range");
            assert!(head(&img, (next - 1) as usize) == off.as_value(), "scan returned an offset that is not the head of the bucket before the next index");
            if j < next - 1 {
                assert!(head(&img, j as usize) == 0, "scan skipped a non-empty bucket");
            }
        } else {
            assert!(next >= n, "scan stopped before the end of the table without a result");
            assert!(head(&img, j as usize) == 0, "scan missed a non-empty bucket");
        }
        let b = f.verif_buf();
        assert!(b.end == end && b.n_extend_by_seek == 0 && b.n_set_len == 0, "scan changed the length of the file");
        assert!(b.pos <= end + 8, "scan left the position far beyond the end of the file");
        kani::cover!(off.as_value() != 0, "hit");
        kani::cover!(off.as_value() == 0, "nothing found");
        core::mem::forget(f);
    }
    macro_rules! scan_at_proof {
        ($name:ident, $n:expr, $idx:expr) => {
            #[kani::proof]
            #[kani::unwind(11)]
            fn $name() {
                scan_at::<$n, { tsize!($n) }>($idx);
            }
        };
    }
    scan_at_proof!(b_scan_128_at0, 128, 0);
    scan_at_proof!(b_scan_128_at56, 128, 56);
    scan_at_proof!(b_scan_128_at64, 128, 64);
    scan_at_proof!(b_scan_128_at120, 128, 120);
    scan_at_proof!(b_scan_256_at184, 256, 184);
    macro_rules! scan_proof {
        ($name:ident, $n:expr, $unwind:expr, $aligned:expr) => {
            #[kani::proof]
            #[kani::unwind($unwind)]
            fn $name() {
                scan::<$n, { tsize!($n) }>($aligned);
            }
        };
    }
    // every start index (the linear part of the scan may run to the end of the table)
    scan_proof!(b_scan_n1, 1, 11, false);
    scan_proof!(b_scan_n2, 2, 11, false);
    scan_proof!(b_scan_n4, 4, 11, false);
    scan_proof!(b_scan_n8, 8, 11, false);
    scan_proof!(b_scan_n16, 16, 19, false);
    // every group-aligned start index: all three loops are bounded independently of n
    // (stride <= n/64 + 1, byte scan <= 10, linear scan <= 9 on a consistent bitmap)
    scan_proof!(b_scan_g32, 32, 11, true);
    scan_proof!(b_scan_g64, 64, 11, true);
    scan_proof!(b_scan_g128, 128, 11, true);
    scan_proof!(b_scan_g256, 256, 11, true);
    // (512 buckets with every aligned start index: out of memory at 24 GB after 45 min - not registered)

    // ------------------------------------------------------------------ bucket write + bitmap
    /// write_key_piece_offset(n, idx, off): bucket idx = off, its bitmap bit = (off != 0), every
    /// other bucket, every other bit, the header and the file length untouched
    fn bucket_write<const N: usize, const T: usize>() {
        let (img, end) = table::<N, T>();
        let mut f = verif::htx::var_file(BufFile::from_image(img.to_vec(), end));
        let idx: u64 = kani::any();
        kani::assume(idx < N as u64);
        let off: u64 = kani::any();
        ok(verif::htx::write_key_piece_offset(&mut f, N as u64, idx, off));
        let b = f.verif_buf();
        let bm0 = 128 + 8 * N;
        let nbm = if N >= 8 { N / 8 } else { 1 };
        let i: usize = kani::any();
        kani::assume(i < bm0 + nbm);
        let hp = 128 + 8 * idx as usize;
        if i >= hp && i < hp + 8 {
            assert!(b.data[i] == off.to_le_bytes()[i - hp], "bucket head not stored as 8 bytes little endian at 128 + 8 * index");
        } else if i == bm0 + (idx / 8) as usize {
            let bit = 1u8 << (idx % 8);
            assert!((b.data[i] & bit != 0) == (off != 0), "occupancy bit differs from 'bucket is non-empty'");
            assert!(b.data[i] & !bit == img[i] & !bit, "occupancy bits of other buckets changed");
        } else {
            assert!(b.data[i] == img[i], "bucket write touched another bucket, another bitmap byte or the header");
        }
        assert!(b.end == (bm0 + nbm) as u64, "bucket write left a wrong file length");
        kani::cover!(off == 0 && head(&img, idx as usize) != 0, "bucket emptied");
        kani::cover!(off != 0 && head(&img, idx as usize) == 0, "bucket filled");
        kani::cover!(idx % 8 == 7, "highest bit of a bitmap byte");
        core::mem::forget(f);
    }
    macro_rules! bucket_proof {
        ($name:ident, $n:expr, $unwind:expr) => {
            #[kani::proof]
            #[kani::unwind($unwind)]
            fn $name() {
                bucket_write::<$n, { tsize!($n) }>();
            }
        };
    }
    bucket_proof!(b_bucket_n1, 1, 11);
    bucket_proof!(b_bucket_n4, 4, 11);
    bucket_proof!(b_bucket_n8, 8, 11);
    bucket_proof!(b_bucket_n16, 16, 11);
    bucket_proof!(b_bucket_n64, 64, 11);
    bucket_proof!(b_bucket_n256, 256, 11);

    // ------------------------------------------------------------------ HtxFile API: placement, item count
    fn htx_api<const N: usize, const T: usize>() {
        let (img, end) = table::<N, T>();
        let count = u64::from_le_bytes([img[24], img[25], img[26], img[27], img[28], img[29], img[30], img[31]]);
        let f = verif::htx::var_file(BufFile::from_image(img.to_vec(), end));
        let mut h = verif::htx::htx_file(f, N as u64);
        let hash: u64 = kani::any();
        let hv = abyssiniandb::filedb::verif::HashValue::new(hash);
        // placement: bucket = hash mod n (format stability)
        let got = ok(h.read_key_piece_offset(hv));
        assert!(got.as_value() == head(&img, (hash % N as u64) as usize), "lookup does not address bucket hash mod n");
        assert!(ok(h.read_hash_buckets_size()) == N as u64, "table size is not the u64 at offset 16");
        assert!(ok(h.read_item_count()) == count, "item count is not the u64 at offset 24");
        let up: bool = kani::any();
        if up {
            kani::assume(count < u64::MAX);
            ok(h.write_item_count_up());
            assert!(ok(h.read_item_count()) == count + 1, "count up");
        } else {
            ok(h.write_item_count_down());
            assert!(ok(h.read_item_count()) == if count > 0 { count - 1 } else { 0 }, "count down");
        }
        let off: u64 = kani::any();
        ok(h.write_key_piece_offset(hv, KeyPieceOffset::new(off)));
        assert!(ok(h.read_key_piece_offset(hv)).as_value() == off);
        verif::htx::with_var_file(&h, |f| {
            let b = f.verif_buf();
            assert!(head(&b.data, (hash % N as u64) as usize) == off, "bucket of a key is not at 128 + 8 * (hash mod n)");
            // the item count lives at 24..32 and nothing else of the header moved
            let i: usize = kani::any();
            kani::assume(i < 128 && !(i >= 24 && i < 32));
            assert!(b.data[i] == img[i], "header changed by a count / bucket update");
        });
        core::mem::forget(h);
    }
    #[kani::proof]
    #[kani::unwind(11)]
    fn b_htx_api_n8() {
        htx_api::<8, { tsize!(8) }>();
    }
    #[kani::proof]
    #[kani::unwind(11)]
    fn b_htx_api_n2() {
        htx_api::<2, { tsize!(2) }>();
    }
    #[kani::proof]
    #[kani::unwind(11)]
    fn b_htx_api_n64() {
        htx_api::<64, { tsize!(64) }>();
    }

    /// C17: filling figure = number of non-empty buckets, per mille of the table size; read-only
    fn fill_rate<const N: usize, const T: usize>() {
        let (img, end) = table::<N, T>();
        let mut buf = BufFile::from_image(img.to_vec(), end);
        buf.ro = true;
        let f = verif::htx::var_file(buf);
        let h = verif::htx::htx_file(f, N as u64);
        let (cnt, pm) = ok(h.htx_filling_rate_per_mill());
        let mut e = 0u64;
        let mut i = 0;
        while i < N {
            if head(&img, i) != 0 {
                e += 1;
            }
            i += 1;
        }
        assert!(cnt == e, "filling figure differs from the number of non-empty buckets");
        assert!(pm as u64 == e * 1000 / N as u64, "per-mille figure differs");
        verif::htx::with_var_file(&h, |f| assert!(f.verif_buf().end == end && f.verif_buf().n_extend_by_seek == 0, "statistics call extended the file"));
        kani::cover!(e == N as u64, "all buckets in use");
        core::mem::forget(h);
    }
    #[kani::proof]
    #[kani::unwind(11)]
    fn b_fill_n8() {
        fill_rate::<8, { tsize!(8) }>();
    }
    #[kani::proof]
    #[kani::unwind(11)]
    fn b_fill_n2() {
        fill_rate::<2, { tsize!(2) }>();
    }
    #[kani::proof]
    #[kani::unwind(19)]
    fn b_fill_n16() {
        fill_rate::<16, { tsize!(16) }>();
    }

    // ------------------------------------------------------------------ headers
    fn hsz(which: u8) -> usize {
        if which == 0 {
            128
        } else {
            192
        }
    }
    fn sig1(which: u8) -> [u8; 8] {
        match which {
            0 => spec::SIG_HTX,
            1 => spec::SIG_KEY,
            _ => spec::SIG_VAL,
        }
    }
    fn var_file_of(which: u8, buf: BufFile) -> VarFile {
        match which {
            0 => verif::htx::var_file(buf),
            1 => verif::key::var_file(buf),
            _ => verif::val::var_file(buf),
        }
    }
    fn check_header_of(which: u8, f: &mut VarFile, sig2: [u8; 8]) -> std::io::Result<()> {
        match which {
            0 => verif::htx::check_header(f, sig2),
            1 => verif::key::check_header(f, sig2),
            _ => verif::val::check_header(f, sig2),
        }
    }
    /// documented header byte i of a freshly created file
    fn header_byte(which: u8, sig2: &[u8; 8], n: u64, i: usize) -> u8 {
        if i < 8 {
            sig1(which)[i]
        } else if i < 16 {
            sig2[i - 8]
        } else if which == 0 && i < 24 {
            n.to_le_bytes()[i - 16]
        } else {
            0
        }
    }
    /// the three header writers define every header byte (starting from arbitrary stale bytes),
    /// produce the documented layout, and the crate's own checker accepts what they wrote
    fn header_written(which: u8) {
        let sig2: [u8; 8] = kani::any();
        let img: [u8; 200] = kani::any();
        let n: u64 = kani::any();
        kani::assume(n >= 1);
        let mut buf = BufFile::from_image(img.to_vec(), 0);
        buf.bulk = true;
        let mut f = var_file_of(which, buf);
        match which {
            0 => ok(verif::htx::write_init_header(&mut f, sig2, n)),
            1 => ok(verif::key::write_init_header(&mut f, sig2)),
            _ => ok(verif::val::write_init_header(&mut f, sig2)),
        }
        {
            let b = f.verif_buf();
            assert!(b.end == hsz(which) as u64, "header size differs from the documented one");
            let i: usize = kani::any();
            kani::assume(i < hsz(which));
            assert!(b.data[i] == header_byte(which, &sig2, n, i), "header byte differs from the documented layout (or is left undefined)");
        }
        f.verif_buf_mut().ro = true;
        ok(check_header_of(which, &mut f, sig2));
        core::mem::forget(f);
    }
    #[kani::proof]
    #[kani::unwind(10)]
    fn b_hdr_write_htx() {
        header_written(0);
    }
    #[kani::proof]
    #[kani::unwind(10)]
    fn b_hdr_write_key() {
        header_written(1);
    }
    #[kani::proof]
    #[kani::unwind(10)]
    fn b_hdr_write_val() {
        header_written(2);
    }

    /// a header whose 16 signature bytes are not exactly (format signature, expected type
    /// signature) must be refused before anything else happens, and nothing is written
    fn header_rejected(which: u8) {
        let want: [u8; 8] = kani::any();
        let img: [u8; 200] = kani::any();
        let s1 = sig1(which);
        let mut same = true;
        let mut i = 0;
        while i < 8 {
            if img[i] != s1[i] || img[8 + i] != want[i] {
                same = false;
            }
            i += 1;
        }
        kani::assume(!same);
        let mut buf = BufFile::from_image(img.to_vec(), hsz(which) as u64 + 8);
        buf.ro = true;
        buf.bulk = true;
        let mut f = var_file_of(which, buf);
        let r = check_header_of(which, &mut f, want);
        kani::cover!(true, "foreign header accepted");
        core::mem::forget(r);
        core::mem::forget(f);
    }
    #[kani::proof]
    #[kani::unwind(10)]
    fn b_hdr_reject_htx() {
        header_rejected(0);
    }
    #[kani::proof]
    #[kani::unwind(10)]
    fn b_hdr_reject_key() {
        header_rejected(1);
    }
    #[kani::proof]
    #[kani::unwind(10)]
    fn b_hdr_reject_val() {
        header_rejected(2);
    }

    // ------------------------------------------------------------------ flush / sync plumbing
    /// VarFile::flush / sync_all / sync_data reach the buffer's flush and the matching OS sync,
    /// and hand a failing write-back to the caller
    #[kani::proof]
    #[kani::unwind(10)]
    fn b_sync_plumbing() {
        use std::io::Write;
        let img: [u8; 64] = kani::any();
        let mut f = verif::val::var_file(BufFile::from_image(img.to_vec(), 32));
        ok(f.seek_from_start(ValuePieceOffset::new(8)));
        ok(f.write_u64_le(kani::any()));
        assert!(f.verif_buf().dirty);
        let kind: u8 = kani::any();
        kani::assume(kind < 3);
        let fail: bool = kani::any();
        f.verif_buf_mut().fail_flush = fail;
        let r = match kind {
            0 => f.flush(),
            1 => f.sync_all(),
            _ => f.sync_data(),
        };
        match r {
            Ok(()) => {
                assert!(!fail, "a failing write-back was swallowed");
                let b = f.verif_buf();
                assert!(!b.dirty && b.n_flush == 1, "buffer not flushed");
                assert!(b.n_sync_all == if kind == 1 { 1 } else { 0 }, "sync_all does not reach the file's sync_all");
                assert!(b.n_sync_data == if kind == 2 { 1 } else { 0 }, "sync_data does not reach the file's sync_data");
                if kind != 0 {
                    assert!(b.t_last_sync > b.t_last_flush && b.t_last_flush > b.t_last_write, "order write < flush < sync violated");
                }
            }
            Err(e) => {
                core::mem::forget(e);
                assert!(fail, "flush failed without a fault");
                assert!(f.verif_buf().dirty, "buffer marked clean although the write-back failed");
            }
        }
        core::mem::forget(f);
    }

    // ------------------------------------------------------------------ open_with_params (real code; the
    // file system is stubbed: OpenOptions::open hands out a dummy File, the buffer model takes the image)
    use abyssiniandb::filedb::{FileBufSizeParam, FileDbParams, HashBucketsParam};
    use abyssiniandb::filedb::verif::{KeyFile, ValueFile};
    use abyssiniandb::DbBytes;
    use std::fs::{File, OpenOptions};
    use std::os::fd::FromRawFd;
    use std::path::Path;
    pub fn fmt_stub(_a: std::fmt::Arguments<'_>) -> String {
        String::new()
    }
    pub fn dbg_stub(_e: &std::io::Error, _f: &mut std::fmt::Formatter<'_>) -> std::fmt::Result {
        Ok(())
    }
    fn open_stub<P: AsRef<Path>>(_o: &OpenOptions, _p: P) -> std::io::Result<File> {
        Ok(unsafe { File::from_raw_fd(100) })
    }
    fn any_buf_param() -> FileBufSizeParam {
        let w: u8 = kani::any();
        match w % 3 {
            0 => FileBufSizeParam::Size(kani::any()),
            1 => FileBufSizeParam::PerMille(kani::any()),
            _ => FileBufSizeParam::Auto,
        }
    }
    fn any_params(buckets: HashBucketsParam) -> FileDbParams {
        FileDbParams { val_buf_size: any_buf_param(), key_buf_size: any_buf_param(), idx_buf_size: FileBufSizeParam::Auto, htx_buf_size: any_buf_param(), buckets_size: buckets }
    }
    fn npow2(x: u64) -> u64 {
        // smallest power of two >= max(x, 1), x <= 16
        if x <= 1 {
            1
        } else if x <= 2 {
            2
        } else if x <= 4 {
            4
        } else if x <= 8 {
            8
        } else {
            16
        }
    }

    /// creating a table file: bucket count from the parameters as documented (next power of two;
    /// capacity -> at least 8 and at most 8/9 full), header = documented bytes with THAT count,
    /// length 128 + 8n + n/8, table and bitmap all zero, handle caches the same count
    #[kani::proof]
    #[kani::unwind(10)]
    #[kani::stub(alloc::fmt::format, fmt_stub)]
    #[kani::stub(<std::io::Error as std::fmt::Debug>::fmt, dbg_stub)]
    #[kani::stub(std::fs::OpenOptions::open, open_stub)]
    fn b_open_htx_new() {
        let img: [u8; 300] = kani::any();
        rabuf::set_next_image(img.to_vec(), 0);
        rabuf::set_next_bulk(true);
        let x: u64 = kani::any();
        let by_cap: bool = kani::any();
        let (bp, expect) = if by_cap {
            kani::assume(x >= 1 && x <= 14);
            (HashBucketsParam::Capacity(x), if x < 8 { 8 } else { npow2(x + x / 8) })
        } else {
            kani::assume(x <= 16);
            (HashBucketsParam::BucketsSize(x), npow2(x))
        };
        let params = any_params(bp);
        let sig2: [u8; 8] = kani::any();
        let h = ok(HtxFile::open_with_params("d", "m", sig2, &params));
        assert!(verif::htx::cached_buckets_size(&h) == expect, "bucket count of a new table differs from the documented function of the parameters");
        assert!(ok(h.read_hash_buckets_size()) == expect, "stored bucket count differs from the one the handle works with");
        assert!(ok(h.read_item_count()) == 0);
        verif::htx::with_var_file(&h, |f| {
            let b = f.verif_buf();
            assert!(b.end == spec::htx_file_len(expect), "length of a new table file differs from 128 + 8n + n/8");
            let i: usize = kani::any();
            kani::assume((i as u64) < b.end);
            let e = if i < 128 { header_byte(0, &sig2, expect, i) } else { 0 };
            assert!(b.data[i] == e, "new table file: byte differs from the documented layout (stale or undefined)");
            if let FileBufSizeParam::Size(_) = params.htx_buf_size {
                assert!(b.asked_chunks >= 2, "fixed buffer with fewer than two chunks");
            }
        });
        kani::cover!(by_cap && expect == 16, "capacity rounded up to 16 buckets");
        kani::cover!(!by_cap && x == 3, "BucketsSize(3)");
        core::mem::forget(h);
    }

    /// opening an EXISTING table file: parameters are ignored in favour of what is stored, nothing
    /// is written, the handle caches the stored bucket count
    fn open_htx_existing<const N: usize, const T: usize>() {
        let (img, end) = table::<N, T>();
        rabuf::set_next_image(img.to_vec(), end);
        rabuf::set_next_bulk(true);
        let x: u64 = kani::any();
        let w: u8 = kani::any();
        let bp = match w % 3 {
            0 => HashBucketsParam::BucketsSize(x),
            1 => {
                kani::assume(x >= 1 && x < (1 << 60));
                HashBucketsParam::Capacity(x)
            }
            _ => HashBucketsParam::Default,
        };
        let params = any_params(bp);
        let h = ok(HtxFile::open_with_params("d", "m", spec::TSIG_BYTES, &params));
        assert!(verif::htx::cached_buckets_size(&h) == N as u64, "handle works with a bucket count that is not the stored one");
        assert!(ok(h.read_hash_buckets_size()) == N as u64);
        verif::htx::with_var_file(&h, |f| {
            let b = f.verif_buf();
            assert!(b.n_writes == 0 && b.n_set_len == 0 && b.end == end, "opening an existing table wrote to it");
        });
        // and the handle addresses buckets with the stored count
        let hash: u64 = kani::any();
        let got = ok(h.read_key_piece_offset(abyssiniandb::filedb::verif::HashValue::new(hash)));
        assert!(got.as_value() == head(&img, (hash % N as u64) as usize), "lookup after reopen does not address bucket hash mod stored n");
        core::mem::forget(h);
    }
    #[kani::proof]
    #[kani::unwind(10)]
    #[kani::stub(alloc::fmt::format, fmt_stub)]
    #[kani::stub(<std::io::Error as std::fmt::Debug>::fmt, dbg_stub)]
    #[kani::stub(std::fs::OpenOptions::open, open_stub)]
    fn b_open_htx_existing_n8() {
        open_htx_existing::<8, { tsize!(8) }>();
    }
    #[kani::proof]
    #[kani::unwind(10)]
    #[kani::stub(alloc::fmt::format, fmt_stub)]
    #[kani::stub(<std::io::Error as std::fmt::Debug>::fmt, dbg_stub)]
    #[kani::stub(std::fs::OpenOptions::open, open_stub)]
    fn b_open_htx_existing_n2() {
        open_htx_existing::<2, { tsize!(2) }>();
    }

    /// key / value file: created with the documented header, an existing one is checked and left alone
    fn open_dat(which: u8, existing: bool) {
        let mut img: [u8; 260] = kani::any();
        let sig2: [u8; 8] = kani::any();
        let end: u64 = if existing {
            let s1 = sig1(which);
            let mut i = 0;
            while i < 8 {
                img[i] = s1[i];
                img[8 + i] = sig2[i];
                img[16 + i] = 0;
                i += 1;
            }
            let e: u64 = kani::any();
            kani::assume(e >= 192 && e <= 256 && e % 8 == 0);
            e
        } else {
            0
        };
        rabuf::set_next_image(img.to_vec(), end);
        rabuf::set_next_bulk(true);
        let params = any_params(HashBucketsParam::Default);
        let fixed = match if which == 1 { &params.key_buf_size } else { &params.val_buf_size } {
            FileBufSizeParam::Size(_) => true,
            _ => false,
        };
        let check = |f: &mut VarFile| {
            let b = f.verif_buf();
            if existing {
                assert!(b.n_writes == 0 && b.n_set_len == 0 && b.end == end, "opening an existing file wrote to it");
            } else {
                assert!(b.end == 192, "new file is not exactly the 192-byte header");
                let i: usize = kani::any();
                kani::assume(i < 192);
                assert!(b.data[i] == header_byte(which, &sig2, 0, i), "new file: header byte differs from the documented layout");
            }
            if fixed {
                assert!(b.asked_chunks >= 2, "fixed buffer with fewer than two chunks");
            }
        };
        if which == 1 {
            let k: KeyFile<DbBytes> = ok(KeyFile::open_with_params("d", "m", sig2, &params));
            verif::key::with_var_file(&k, check);
            core::mem::forget(k);
        } else {
            let v = ok(ValueFile::open_with_params("d", "m", sig2, &params));
            verif::val::with_var_file(&v, check);
            core::mem::forget(v);
        }
    }
    macro_rules! open_dat_proof {
        ($name:ident, $which:expr, $existing:expr) => {
            #[kani::proof]
            #[kani::unwind(10)]
            #[kani::stub(alloc::fmt::format, fmt_stub)]
            #[kani::stub(<std::io::Error as std::fmt::Debug>::fmt, dbg_stub)]
            #[kani::stub(std::fs::OpenOptions::open, open_stub)]
            fn $name() {
                open_dat($which, $existing);
            }
        };
    }
    open_dat_proof!(b_open_key_new, 1, false);
    open_dat_proof!(b_open_key_existing, 1, true);
    open_dat_proof!(b_open_val_new, 2, false);
    open_dat_proof!(b_open_val_existing, 2, true);

    /// the real open_with_params refuses files with a foreign signature pair before anything else
    fn open_rejected(which: u8) {
        let want: [u8; 8] = kani::any();
        let img: [u8; 260] = kani::any();
        let s1 = sig1(which);
        let mut same = true;
        let mut i = 0;
        while i < 8 {
            if img[i] != s1[i] || img[8 + i] != want[i] {
                same = false;
            }
            i += 1;
        }
        kani::assume(!same);
        // any non-empty file that holds the 16 signature bytes, also one shorter than a header
        let flen: u64 = kani::any();
        kani::assume(flen >= 16 && flen <= 256);
        rabuf::set_next_image(img.to_vec(), flen);
        rabuf::set_next_bulk(true);
        rabuf::set_next_ro(true);
        let params = FileDbParams::default();
        match which {
            0 => {
                let r = HtxFile::open_with_params("d", "m", want, &params);
                kani::cover!(true, "foreign header accepted");
                core::mem::forget(r);
            }
            1 => {
                let r: std::io::Result<KeyFile<DbBytes>> = KeyFile::open_with_params("d", "m", want, &params);
                kani::cover!(true, "foreign header accepted");
                core::mem::forget(r);
            }
            _ => {
                let r = ValueFile::open_with_params("d", "m", want, &params);
                kani::cover!(true, "foreign header accepted");
                core::mem::forget(r);
            }
        }
    }
    macro_rules! open_rej_proof {
        ($name:ident, $which:expr) => {
            #[kani::proof]
            #[kani::unwind(10)]
            #[kani::stub(alloc::fmt::format, fmt_stub)]
            #[kani::stub(<std::io::Error as std::fmt::Debug>::fmt, dbg_stub)]
            #[kani::stub(std::fs::OpenOptions::open, open_stub)]
            fn $name() {
                open_rejected($which);
            }
        };
    }
    open_rej_proof!(b_open_reject_htx, 0);
    open_rej_proof!(b_open_reject_key, 1);
    open_rej_proof!(b_open_reject_val, 2);

    // ------------------------------------------------------------------ per-file flush / sync wrappers
    /// HtxFile / KeyFile / ValueFile ::flush, sync_all, sync_data write back whatever is pending,
    /// whatever the file holds (also an empty table), and reach the matching OS sync
    fn wrapper_sync(which: u8) {
        let kind: u8 = kani::any();
        kani::assume(kind < 3);
        let check = |f: &mut VarFile| {
            let b = f.verif_buf();
            assert!(!b.dirty && b.n_flush == 1, "per-file flush / sync wrapper did not write back the buffer");
            assert!(b.n_sync_all == if kind == 1 { 1 } else { 0 }, "sync_all wrapper does not reach the file's sync_all");
            assert!(b.n_sync_data == if kind == 2 { 1 } else { 0 }, "sync_data wrapper does not reach the file's sync_data");
        };
        if which == 0 {
            let (img, end) = table::<8, { tsize!(8) }>();
            let mut f = verif::htx::var_file(BufFile::from_image(img.to_vec(), end));
            // something is pending: e.g. the count was just written (any value, also 0)
            ok(verif::htx::write_item_count(&mut f, kani::any()));
            let h = verif::htx::htx_file(f, 8);
            match kind {
                0 => ok(h.flush()),
                1 => ok(h.sync_all()),
                _ => ok(h.sync_data()),
            }
            verif::htx::with_var_file(&h, check);
            core::mem::forget(h);
        } else {
            let img: [u8; 256] = kani::any();
            let buf = BufFile::from_image(img.to_vec(), 200);
            if which == 1 {
                let mut f = verif::key::var_file(buf);
                ok(f.seek_from_start(KeyPieceOffset::new(48)));
                ok(f.write_u64_le(kani::any()));
                let k: KeyFile<DbBytes> = verif::key::key_file(f);
                match kind {
                    0 => ok(k.flush()),
                    1 => ok(k.sync_all()),
                    _ => ok(k.sync_data()),
                }
                verif::key::with_var_file(&k, check);
                core::mem::forget(k);
            } else {
                let mut f = verif::val::var_file(buf);
                ok(f.seek_from_start(ValuePieceOffset::new(32)));
                ok(f.write_u64_le(kani::any()));
                let v = verif::val::val_file(f);
                match kind {
                    0 => ok(v.flush()),
                    1 => ok(v.sync_all()),
                    _ => ok(v.sync_data()),
                }
                verif::val::with_var_file(&v, check);
                core::mem::forget(v);
            }
        }
    }
    #[kani::proof]
    #[kani::unwind(11)]
    fn b_wrap_sync_htx() {
        wrapper_sync(0);
    }
    #[kani::proof]
    #[kani::unwind(11)]
    fn b_wrap_sync_key() {
        wrapper_sync(1);
    }
    #[kani::proof]
    #[kani::unwind(11)]
    fn b_wrap_sync_val() {
        wrapper_sync(2);
    }
}
