//! Slot-structured model of `vfile::VarFile` (see DESIGN 2, layer R).
//!
//! The record code of the crate only ever (re)writes a record sequentially from its first byte
//! and patches one fixed-width field in place (the free-list link).  So a file is modelled as
//!   * 24 header words (192 bytes: signatures, 16 free-list heads, reserves), and
//!   * up to NS slots at solver-chosen 8-aligned offsets, each holding the SEQUENCE OF TYPED
//!     FIELDS last written into it:  Size, Len, Bytes(len, tracked prefix) | Link(u64),
//!     Off, Off, Zero-to.
//! Field widths are the real vu64 widths (`vu64::encoded_len`), so where the next field starts
//! and where a record ends are exact, while no varint is bit-blasted and no byte array is indexed
//! symbolically.  Codec correctness (bytes <-> values) is decided separately at layer B
//! (b_codec_*).  An access that does not fit the sequential discipline is counted in
//! `unstructured` / `garbage_reads`; harnesses report it as MODEL-LIMIT (inconclusive).
use super::piece::PieceMgr;
use super::semtype::*;
use rabuf::MaybeSlice;
use std::fs::File;
use std::io::{Read, Result, Write};

pub const NS: usize = 4; // slots per file
pub const NH: usize = 24; // header words
pub const BMAX: usize = 3; // tracked payload prefix
pub const RCAP: usize = 1408; // capacity of payload buffers handed out by reads

#[derive(Clone, Copy, Debug)]
pub struct Slot {
    pub live: bool,
    pub off: u64,
    /// fields written so far: 0 none, 1 Size, 2 +Len, 3 +body (Bytes or Link), 4 +Off, 5 +Off, 9 zero-filled
    pub nf: u8,
    pub zeroed: bool,
    pub size: u64, // stored value (= slot bytes / 8)
    pub size_w: u64,
    pub len: u64,
    pub len_w: u64,
    pub body: u8, // 0 none, 1 Bytes, 2 Link
    pub blen: u64,
    pub bytes: [u8; BMAX],
    pub link: u64,
    pub o1: u64, // stored value (= offset / 8)
    pub o1_w: u64,
    pub o2: u64,
    pub o2_w: u64,
    pub zero_to: u64, // absolute end of the zero padding (valid if zeroed)
}
pub const NOSLOT: Slot =
    Slot { live: false, off: 0, nf: 0, zeroed: false, size: 0, size_w: 0, len: 0, len_w: 0, body: 0, blen: 0, bytes: [0; BMAX], link: 0, o1: 0, o1_w: 0, o2: 0, o2_w: 0, zero_to: 0 };

impl Slot {
    pub fn p1(&self) -> u64 {
        self.off + self.size_w
    }
    pub fn p2(&self) -> u64 {
        self.p1() + self.len_w
    }
    pub fn p3(&self) -> u64 {
        self.p2() + if self.body == 1 { self.blen } else if self.body == 2 { 8 } else { 0 }
    }
    pub fn p4(&self) -> u64 {
        self.p3() + self.o1_w
    }
    pub fn p5(&self) -> u64 {
        self.p4() + self.o2_w
    }
    /// end of the last field written (= where the next sequential field goes)
    pub fn cursor(&self) -> u64 {
        match self.nf {
            0 => self.off,
            1 => self.p1(),
            2 => self.p2(),
            3 => self.p3(),
            4 => self.p4(),
            _ => self.p5(),
        }
    }
    pub fn slot_bytes(&self) -> u64 {
        self.size * 8
    }
    pub fn end(&self) -> u64 {
        self.off + self.size * 8
    }
}

#[derive(Debug)]
pub struct VarFile {
    pub(crate) piece_mgr: PieceMgr,
    pub hdr: [u64; NH],
    pub slots: [Slot; NS],
    pub pos: u64,
    pub end: u64,
    pub garbage_reads: u32,
    pub unstructured: u32,
    pub extended_by_seek: u32,
    pub writes: u32,
    pub flushes: u32,
    pub ro: bool,
}

fn vw(v: u64) -> u64 {
    vu64::encoded_len(v) as u64
}
#[derive(Clone, Copy, PartialEq, Eq)]
enum K {
    Size,
    Len,
    Link,
    Off,
}

impl VarFile {
    pub fn model(piece_mgr: PieceMgr) -> Self {
        Self { piece_mgr, hdr: [0; NH], slots: [NOSLOT; NS], pos: 0, end: 192, garbage_reads: 0, unstructured: 0, extended_by_seek: 0, writes: 0, flushes: 0, ro: false }
    }
    pub fn verif_from_buf(piece_mgr: PieceMgr, _b: rabuf::BufFile) -> VarFile {
        Self::model(piece_mgr)
    }
    pub fn new(_p: PieceMgr, _n: &str, _f: File) -> Result<VarFile> {
        unimplemented!()
    }
    pub fn with_capacity(_p: PieceMgr, _n: &str, _f: File, _c: u32, _m: u16) -> Result<VarFile> {
        unimplemented!()
    }
    pub fn with_per_mille(_p: PieceMgr, _n: &str, _f: File, _c: u32, _m: u16) -> Result<VarFile> {
        unimplemented!()
    }
    pub fn sync_all(&mut self) -> Result<()> {
        self.flushes += 1;
        Ok(())
    }
    pub fn sync_data(&mut self) -> Result<()> {
        self.flushes += 1;
        Ok(())
    }
    pub fn read_fill_buffer(&mut self) -> Result<()> {
        Ok(())
    }
    fn wrote(&mut self) {
        assert!(!self.ro, "file written during a read-only call");
        self.writes += 1;
    }
    fn garbage(&mut self) -> (u64, u64) {
        self.garbage_reads += 1;
        #[cfg(kani)]
        {
            let v: u64 = kani::any();
            let w: u64 = kani::any();
            kani::assume(w >= 1 && w <= 9);
            (v, w)
        }
        #[cfg(not(kani))]
        {
            (0, 1)
        }
    }
    /// read field `k` at the current position
    fn rd(&mut self, k: K) -> u64 {
        let p = self.pos;
        let mut hit: Option<(u64, u64)> = None;
        let mut i = 0;
        while i < NS {
            let s = self.slots[i];
            if s.live && hit.is_none() {
                if k == K::Size && s.nf >= 1 && p == s.off {
                    hit = Some((s.size, s.size_w));
                } else if k == K::Len && s.nf >= 2 && p == s.p1() {
                    hit = Some((s.len, s.len_w));
                } else if k == K::Link && s.nf >= 3 && s.body == 2 && p == s.p2() {
                    hit = Some((s.link, 8));
                } else if k == K::Off && s.nf >= 4 && s.body == 1 && p == s.p3() {
                    hit = Some((s.o1, s.o1_w));
                } else if k == K::Off && s.nf >= 5 && s.body == 1 && p == s.p4() {
                    hit = Some((s.o2, s.o2_w));
                } else if s.zeroed && s.cursor() <= p && p < s.zero_to {
                    // inside explicit zero padding
                    if k == K::Link {
                        if p + 8 <= s.zero_to {
                            hit = Some((0, 8));
                        }
                    } else {
                        hit = Some((0, 1));
                    }
                }
            }
            i += 1;
        }
        let (v, w) = match hit {
            Some(x) => x,
            None => self.garbage(),
        };
        self.pos = p + w;
        v
    }
    /// write field `k` at the current position
    fn wr(&mut self, k: K, val: u64, w: u64) {
        self.wrote();
        let p = self.pos;
        let mut done = false;
        let mut i = 0;
        while i < NS {
            let s = &mut self.slots[i];
            if s.live && !done {
                if p == s.off {
                    // a (re)write starts at the first byte of a slot: everything behind it is stale
                    if k == K::Size {
                        *s = Slot { live: true, off: p, nf: 1, size: val, size_w: w, ..NOSLOT };
                        done = true;
                    }
                } else if !s.zeroed && s.nf == 1 && p == s.p1() && k == K::Len {
                    s.nf = 2;
                    s.len = val;
                    s.len_w = w;
                    done = true;
                } else if !s.zeroed && s.nf == 2 && p == s.p2() && k == K::Link {
                    s.nf = 3;
                    s.body = 2;
                    s.link = val;
                    done = true;
                } else if s.nf >= 3 && s.body == 2 && p == s.p2() && k == K::Link {
                    // the free-list link is patched in place
                    s.link = val;
                    done = true;
                } else if !s.zeroed && s.nf == 3 && s.body == 1 && p == s.p3() && k == K::Off {
                    s.nf = 4;
                    s.o1 = val;
                    s.o1_w = w;
                    done = true;
                } else if !s.zeroed && s.nf == 4 && p == s.p4() && k == K::Off {
                    s.nf = 5;
                    s.o2 = val;
                    s.o2_w = w;
                    done = true;
                }
            }
            i += 1;
        }
        if !done && p == self.end && k == K::Size {
            // append a new slot at the end of the file
            let mut j = 0;
            while j < NS {
                if !self.slots[j].live && !done {
                    self.slots[j] = Slot { live: true, off: p, nf: 1, size: val, size_w: w, ..NOSLOT };
                    done = true;
                }
                j += 1;
            }
            #[cfg(kani)]
            kani::assume(done); // slot capacity of the model is a structure bound
        }
        if !done {
            self.unstructured += 1;
        }
        self.pos = p + w;
        if self.end < self.pos {
            self.end = self.pos;
        }
    }
    fn wr_bytes(&mut self, buf: &[u8]) {
        self.wrote();
        let p = self.pos;
        let n = buf.len() as u64;
        let mut b = [0u8; BMAX];
        let mut i = 0;
        while i < BMAX {
            if i < buf.len() {
                b[i] = buf[i];
            }
            i += 1;
        }
        let mut done = false;
        let mut i = 0;
        while i < NS {
            let s = &mut self.slots[i];
            if s.live && !done && !s.zeroed && s.nf == 2 && p == s.p2() {
                s.nf = 3;
                s.body = 1;
                s.blen = n;
                s.bytes = b;
                done = true;
            }
            i += 1;
        }
        if !done {
            self.unstructured += 1;
        }
        self.pos = p + n;
        if self.end < self.pos {
            self.end = self.pos;
        }
    }

    pub fn seek_from_start<T: PartialEq + Copy>(&mut self, offset: Offset<T>) -> Result<Offset<T>> {
        let o = offset.as_value();
        if o > self.end {
            assert!(!self.ro, "file extended by a seek during a read-only call");
            self.extended_by_seek += 1;
            self.end = o;
        }
        self.pos = o;
        Ok(offset)
    }
    pub fn seek_skip_length<T: PartialEq + Copy>(&mut self, length: Length<T>) -> Result<Offset<T>> {
        self.pos += length.as_value() as u64;
        Ok(Offset::new(self.pos))
    }
    pub fn seek_back_size<T: PartialEq + Copy>(&mut self, size: Size<T>) -> Result<Offset<T>> {
        self.pos -= size.as_value() as u64;
        Ok(Offset::new(self.pos))
    }
    pub fn seek_to_end<T>(&mut self) -> Result<Offset<T>> {
        self.pos = self.end;
        Ok(Offset::new(self.pos))
    }
    pub fn seek_position<T>(&mut self) -> Result<Offset<T>> {
        Ok(Offset::new(self.pos))
    }
    pub fn set_file_length<T>(&mut self, file_length: Offset<T>) -> Result<()> {
        self.wrote();
        let n = file_length.as_value();
        let mut i = 0;
        while i < NS {
            if self.slots[i].live && self.slots[i].off >= n {
                self.slots[i].live = false;
            }
            i += 1;
        }
        self.end = n;
        if self.pos > n {
            self.pos = n;
        }
        Ok(())
    }
    pub fn write_zero_to_offset<T: PartialOrd>(&mut self, offset: Offset<T>) -> Result<()> {
        let o = offset.as_value();
        let p = self.pos;
        if o > p {
            self.wrote();
            let mut done = false;
            let mut i = 0;
            while i < NS {
                let s = &mut self.slots[i];
                if s.live && !done && !s.zeroed && s.nf >= 1 && p == s.cursor() {
                    s.zeroed = true;
                    s.zero_to = o;
                    done = true;
                }
                i += 1;
            }
            if !done {
                self.unstructured += 1;
            }
            self.pos = o;
            if self.end < o {
                self.end = o;
            }
        }
        Ok(())
    }
    pub fn write_piece_clear<T: Copy + PartialEq + PartialOrd>(&mut self, offset: PieceOffset<T>, size: PieceSize<T>) -> Result<()> {
        debug_assert!(!size.is_zero());
        #[cfg(debug_assertions)]
        {
            self.seek_from_start(offset)?;
            let _piece_size: PieceSize<T> = self.read_piece_size()?;
            debug_assert!(_piece_size.is_zero() || size == _piece_size, "size == _piece_size");
        }
        self.seek_from_start(offset)?;
        self.write_piece_size(size)?;
        self.write_zero_to_offset(offset + size)?;
        Ok(())
    }
    pub fn read_free_piece_offset<T>(&mut self) -> Result<Offset<T>> {
        Ok(Offset::new(self.rd(K::Link)))
    }
    pub fn write_free_piece_offset<T>(&mut self, offset: Offset<T>) -> Result<()> {
        self.wr(K::Link, offset.as_value(), 8);
        Ok(())
    }
    pub fn read_piece_offset<T>(&mut self) -> Result<PieceOffset<T>> {
        Ok(PieceOffset::<T>::new(self.rd(K::Off) * 8))
    }
    pub fn write_piece_offset<T>(&mut self, piece_offset: PieceOffset<T>) -> Result<()> {
        let v: u64 = piece_offset.as_value();
        debug_assert!(v % 8 == 0);
        self.wr(K::Off, v / 8, vw(v / 8));
        Ok(())
    }
    pub fn read_piece_size<T>(&mut self) -> Result<PieceSize<T>> {
        Ok(PieceSize::<T>::new((self.rd(K::Size) as u32) * 8))
    }
    pub fn write_piece_size<T>(&mut self, s: PieceSize<T>) -> Result<()> {
        debug_assert!(s.as_value() % 8 == 0);
        let v = (s.as_value() / 8) as u64;
        self.wr(K::Size, v, vw(v));
        Ok(())
    }
    pub fn read_key_len(&mut self) -> Result<KeyLength> {
        Ok(KeyLength::new(self.rd(K::Len) as u32))
    }
    pub fn write_key_len(&mut self, l: KeyLength) -> Result<()> {
        let v = l.as_value() as u64;
        self.wr(K::Len, v, vw(v));
        Ok(())
    }
    pub fn read_value_len(&mut self) -> Result<ValueLength> {
        Ok(ValueLength::new(self.rd(K::Len) as u32))
    }
    pub fn write_value_len(&mut self, l: ValueLength) -> Result<()> {
        let v = l.as_value() as u64;
        self.wr(K::Len, v, vw(v));
        Ok(())
    }
    pub fn seek_skip_to_piece_key<T: Copy + PartialEq>(&mut self, offset: PieceOffset<T>) -> Result<PieceOffset<T>> {
        self.seek_from_start(offset)?;
        let _ = self.rd(K::Size);
        Ok(Offset::new(self.pos))
    }
    pub fn seek_skip_to_piece_value<T: Copy + PartialEq>(&mut self, offset: PieceOffset<T>) -> Result<PieceOffset<T>> {
        self.seek_skip_to_piece_key(offset)
    }
}
impl Read for VarFile {
    fn read(&mut self, _b: &mut [u8]) -> Result<usize> {
        unimplemented!()
    }
}
impl Write for VarFile {
    fn write(&mut self, _b: &[u8]) -> Result<usize> {
        unimplemented!()
    }
    fn flush(&mut self) -> Result<()> {
        self.flushes += 1;
        Ok(())
    }
}
impl rabuf::SmallRead for VarFile {
    fn read_u8(&mut self) -> Result<u8> {
        unimplemented!()
    }
    fn read_u16_le(&mut self) -> Result<u16> {
        unimplemented!()
    }
    fn read_u32_le(&mut self) -> Result<u32> {
        unimplemented!()
    }
    fn read_u64_le(&mut self) -> Result<u64> {
        let p = self.pos;
        if p < 192 && p % 8 == 0 {
            self.pos = p + 8;
            Ok(self.hdr[(p / 8) as usize])
        } else {
            Ok(self.rd(K::Link))
        }
    }
    fn read_max_8_bytes(&mut self, _s: usize) -> Result<u64> {
        unimplemented!()
    }
    fn read_exact_small(&mut self, _b: &mut [u8]) -> Result<()> {
        unimplemented!()
    }
    /// payload of `size` bytes: the tracked prefix, the rest zeros (a real allocation of RCAP bytes)
    fn read_exact_maybeslice(&mut self, size: usize) -> Result<MaybeSlice<'_>> {
        let p = self.pos;
        let mut v: Vec<u8> = vec![0u8; RCAP];
        let mut hit = false;
        let mut i = 0;
        while i < NS {
            let s = self.slots[i];
            if s.live && s.nf >= 3 && s.body == 1 && p == s.p2() && s.blen == size as u64 {
                hit = true;
                let mut j = 0;
                while j < BMAX {
                    if j < size {
                        v[j] = s.bytes[j];
                    }
                    j += 1;
                }
            }
            i += 1;
        }
        if !hit && size > 0 {
            self.garbage_reads += 1;
        }
        #[cfg(kani)]
        kani::assume(size <= RCAP);
        v.truncate(size);
        self.pos = p + size as u64;
        Ok(MaybeSlice::Buffer(v))
    }
}
impl rabuf::SmallWrite for VarFile {
    fn write_u8(&mut self, _v: u8) -> Result<()> {
        unimplemented!()
    }
    fn write_u16_le(&mut self, _v: u16) -> Result<()> {
        unimplemented!()
    }
    fn write_u32_le(&mut self, _v: u32) -> Result<()> {
        unimplemented!()
    }
    fn write_u64_le(&mut self, v: u64) -> Result<()> {
        let p = self.pos;
        if p < 192 && p % 8 == 0 {
            self.wrote();
            self.hdr[(p / 8) as usize] = v;
            self.pos = p + 8;
        } else {
            self.wr(K::Link, v, 8);
        }
        Ok(())
    }
    fn write_u64_le_slice(&mut self, _s: &[u64]) -> Result<()> {
        unimplemented!()
    }
    fn write_u64_le_slice2(&mut self, _a: &[u64], _b: &[u64]) -> Result<()> {
        unimplemented!()
    }
    fn write_all_small(&mut self, buf: &[u8]) -> Result<()> {
        self.wr_bytes(buf);
        Ok(())
    }
    fn write_zero(&mut self, _s: u32) -> Result<()> {
        unimplemented!()
    }
}
