//! Harnesses of layer R.  Pre-states are arbitrary images that satisfy I1 (slots tile
//! [192, end), every slot is a complete used record or a complete free record on exactly the free
//! list of its size class, lists acyclic), built from solver variables; each harness runs ONE real
//! call and asserts I1 plus the call's own contract afterwards.
use crate::filedb::inner::key::verif_probe as kp;
use crate::filedb::inner::key::KeyPiece;
use crate::filedb::inner::semtype::*;
use crate::filedb::inner::val::verif_probe as vp;
use crate::filedb::inner::val::ValuePiece;
use crate::filedb::inner::vfile::*;
use crate::spec;
use abyssiniandb::{DbBytes, DbMapKeyType};

use crate::filedb::inner::piece::PieceMgr;
// ---- stand-ins for the three 15/16-entry table loops of the size-class code.  Each is shown
// equal to the real function for ALL sizes at layer K (k_class_roundup: roundup == spec::slot_for;
// k_class_lists: list head offset == 48 / 32 + 8 * list index).  Without them every harness needs
// an unwind bound of 17, which also unrolls the first-fit loop of the large list 17 times on
// infeasible paths (measured: 520 K symex steps for one pop instead of 40 K).
pub static mut IS_KEY_FILE: bool = false;
fn set_key_file(b: bool) {
    unsafe {
        *core::ptr::addr_of_mut!(IS_KEY_FILE) = b;
    }
}
pub fn roundup_stub<T>(_m: &PieceMgr, s: PieceSize<T>) -> PieceSize<T> {
    assert!(s.as_value() > 0, "roundup of a zero size");
    PieceSize::<T>::new(spec::slot_for(s.as_value()))
}
pub fn list_head_stub<T>(_m: &PieceMgr, s: PieceSize<T>) -> u64 {
    let v = s.as_value();
    assert!(v > 0, "free list of a zero size asked for");
    assert!(spec::is_slot_size_lf(v) || v > 896, "free list of an illegal slot size asked for");
    let base = if unsafe { *core::ptr::addr_of!(IS_KEY_FILE) } { spec::KEY_FREE_HEAD0 } else { spec::VAL_FREE_HEAD0 };
    base + 8 * spec::list_of_lf(v) as u64
}
pub fn valid_key_stub(s: &KeyPieceSize) -> bool {
    assert!(spec::is_slot_size_lf(s.as_value()) || s.as_value() > 896, "key slot size is not a documented class");
    true
}
pub fn valid_val_stub(s: &ValuePieceSize) -> bool {
    assert!(spec::is_slot_size_lf(s.as_value()) || s.as_value() > 896, "value slot size is not a documented class");
    true
}
/// For the `small` harnesses (every slot <= 256 bytes, every length <= 250) the first-fit search of
/// the large free list is unreachable.  CBMC would still unroll its loop on that infeasible path
/// (half of the cost of a write harness); this stand-in turns "unreachable" into a checked
/// assertion instead: if the large path could be entered, the harness fails.
pub fn pop_large_unreachable<T: Copy + PartialEq + PartialOrd>(_f: &mut VarFile, _s: PieceSize<T>, first: PieceOffset<T>) -> std::io::Result<PieceOffset<T>> {
    assert!(false, "MODEL-LIMIT: large free list entered in a harness restricted to small slots");
    Ok(first)
}
macro_rules! rproof_small {
    ($name:ident, $body:expr) => {
        #[kani::proof]
        #[kani::unwind(6)]
        #[kani::stub(crate::filedb::inner::piece::PieceMgr::roundup, roundup_stub)]
        #[kani::stub(crate::filedb::inner::piece::PieceMgr::free_piece_list_offset_of_header, list_head_stub)]
        #[kani::stub(crate::filedb::inner::semtype::Size::<crate::filedb::inner::semtype::Piece<crate::filedb::inner::semtype::Key>>::is_valid_key, valid_key_stub)]
        #[kani::stub(crate::filedb::inner::semtype::Size::<crate::filedb::inner::semtype::Piece<crate::filedb::inner::semtype::Value>>::is_valid_value, valid_val_stub)]
        #[kani::stub(crate::filedb::inner::vfile::VarFile::pop_free_piece_list_large, pop_large_unreachable)]
        fn $name() {
            $body;
        }
    };
}
macro_rules! rproof {
    ($name:ident, $body:expr) => {
        #[kani::proof]
        #[kani::unwind(6)]
        #[kani::stub(crate::filedb::inner::piece::PieceMgr::roundup, roundup_stub)]
        #[kani::stub(crate::filedb::inner::piece::PieceMgr::free_piece_list_offset_of_header, list_head_stub)]
        #[kani::stub(crate::filedb::inner::semtype::Size::<crate::filedb::inner::semtype::Piece<crate::filedb::inner::semtype::Key>>::is_valid_key, valid_key_stub)]
        #[kani::stub(crate::filedb::inner::semtype::Size::<crate::filedb::inner::semtype::Piece<crate::filedb::inner::semtype::Value>>::is_valid_value, valid_val_stub)]
        fn $name() {
            $body;
        }
    };
}

pub fn ok<T>(r: std::io::Result<T>) -> T {
    match r {
        Ok(v) => v,
        Err(e) => {
            core::mem::forget(e);
            panic!("unexpected io error")
        }
    }
}
fn enc(v: u64) -> u64 {
    vu64::encoded_len(v) as u64
}
/// header word index of the free-list head for a slot of `size` bytes
fn head_word(is_key: bool, size: u32) -> usize {
    (if is_key { 6 } else { 4 }) + spec::list_of_lf(size)
}
/// any legal slot size: one of the 15 small classes or a large size 1024 + 128k (k <= 24)
fn any_slot_size() -> u32 {
    let large: bool = kani::any();
    if large {
        let k: u32 = kani::any();
        kani::assume(k <= 24);
        1024 + 128 * k
    } else {
        let i: usize = kani::any();
        kani::assume(i < 15);
        spec::CLASSES[i]
    }
}
fn any_large_size() -> u32 {
    let k: u32 = kani::any();
    kani::assume(k <= 24);
    1024 + 128 * k
}
fn zero_fields(s: &mut Slot) {
    let e = s.off + s.size * 8;
    kani::assume(s.cursor() <= e);
    if s.cursor() < e {
        s.zeroed = true;
        s.zero_to = e;
    }
}
fn used_val(off: u64, size: u32, len: u32, b: [u8; BMAX]) -> Slot {
    let mut s = Slot { live: true, off, nf: 3, size: (size / 8) as u64, size_w: enc((size / 8) as u64), len: len as u64, len_w: enc(len as u64), body: 1, blen: len as u64, bytes: b, ..NOSLOT };
    zero_fields(&mut s);
    s
}
fn used_key(off: u64, size: u32, len: u32, b: [u8; BMAX], voff: u64, next: u64) -> Slot {
    let mut s = Slot {
        live: true,
        off,
        nf: 5,
        size: (size / 8) as u64,
        size_w: enc((size / 8) as u64),
        len: len as u64,
        len_w: enc(len as u64),
        body: 1,
        blen: len as u64,
        bytes: b,
        o1: voff / 8,
        o1_w: enc(voff / 8),
        o2: next / 8,
        o2_w: enc(next / 8),
        ..NOSLOT
    };
    zero_fields(&mut s);
    s
}
fn free_slot(off: u64, size: u32, next: u64) -> Slot {
    Slot { live: true, off, nf: 3, zeroed: true, size: (size / 8) as u64, size_w: enc((size / 8) as u64), len: 0, len_w: 1, body: 2, link: next, zero_to: off + size as u64, ..NOSLOT }
}
fn is_free(s: &Slot) -> bool {
    s.live && s.body == 2
}
/// the slot at `off`, by value (live == false if there is none).  Slots are never indexed with a
/// solver-chosen index: behind an Rc that turns into a byte-extract over the whole file struct.
fn slot_at(f: &VarFile, off: u64) -> Slot {
    let mut r = NOSLOT;
    let mut i = 0;
    while i < NS {
        if f.slots[i].live && f.slots[i].off == off {
            r = f.slots[i];
        }
        i += 1;
    }
    r
}
fn set_slot(f: &mut VarFile, off: u64, s: Slot) {
    let mut i = 0;
    while i < NS {
        if f.slots[i].live && f.slots[i].off == off {
            f.slots[i] = s;
        }
        i += 1;
    }
}
/// position of slot `off` in the free list starting at header word `hw` (NS = not on it)
fn list_pos(f: &VarFile, hw: usize, off: u64) -> usize {
    let mut cur = f.hdr[hw];
    let mut k = 0;
    while k < NS {
        if cur == 0 {
            return NS;
        }
        if cur == off {
            return k;
        }
        let s = slot_at(f, cur);
        assert!(s.live, "I1: free list link points to no slot");
        assert!(is_free(&s), "I1: free list runs through a slot that is not a free record");
        cur = s.link;
        k += 1;
    }
    assert!(cur == 0, "I1: free list longer than the number of slots (cycle)");
    NS
}
fn list_len(f: &VarFile, hw: usize) -> usize {
    let mut cur = f.hdr[hw];
    let mut k = 0;
    while k < NS && cur != 0 {
        let s = slot_at(f, cur);
        assert!(s.live, "I1: free list link points to no slot");
        cur = s.link;
        k += 1;
    }
    assert!(cur == 0, "I1: free list longer than the number of slots (cycle)");
    k
}
/// I1: every slot complete, inside its bounds, padded with zeros to its exact end; slots tile
/// [192, end); every free record is on exactly the list of its size; no used record is on a list
fn check_i1(f: &VarFile, is_key: bool) {
    assert!(f.garbage_reads == 0, "MODEL-LIMIT: read of bytes that no field defines");
    assert!(f.unstructured == 0, "MODEL-LIMIT: write that does not continue a record sequentially");
    assert!(f.extended_by_seek == 0, "file extended by seeking beyond its end");
    let mut total = 0u64;
    let mut i = 0;
    while i < NS {
        let s = f.slots[i];
        if s.live {
            assert!(s.off >= 192 && s.off % 8 == 0, "I1: slot not 8-aligned behind the header");
            assert!(spec::is_slot_size_lf((s.size * 8) as u32), "I1: slot size is not a documented class");
            if s.body == 2 {
                assert!(s.nf == 3 && s.len == 0 && s.len_w == 1, "I1: malformed free record");
                assert!(list_pos(f, head_word(is_key, (s.size * 8) as u32), s.off) < NS, "I1: free slot is not on the free list of its size class");
            } else {
                assert!(s.body == 1 && s.nf == if is_key { 5 } else { 3 }, "I1: record not completely written");
                assert!(s.len == s.blen, "I1: length field differs from the payload length");
            }
            assert!(s.cursor() <= s.end(), "I1: record overflows its slot");
            if s.cursor() < s.end() {
                assert!(s.zeroed && s.zero_to == s.end(), "I1: slot is not zero-padded to exactly its end (stale or undefined bytes, or a gap)");
            } else {
                assert!(!s.zeroed || s.zero_to == s.end());
            }
            assert!(s.end() <= f.end, "I1: slot reaches beyond the end of the file");
            let mut j = 0;
            while j < i {
                let t = f.slots[j];
                if t.live {
                    assert!(s.end() <= t.off || t.end() <= s.off, "I1: two slots overlap");
                }
                j += 1;
            }
            total += s.size * 8;
        }
        i += 1;
    }
    assert!(192 + total == f.end, "I1: slots do not tile the file (gap or stranded tail)");
    // the lists hold exactly the free slots: every head points to a free slot of that list (or 0),
    // every free slot is reachable (above), and no slot is linked twice
    let base = if is_key { 6 } else { 4 };
    {
        // one universally quantified list index instead of a loop over the 16 heads
        let l: usize = kani::any();
        kani::assume(l < 16);
        let h = f.hdr[base + l];
        if h != 0 {
            let s = slot_at(f, h);
            assert!(s.live && s.body == 2, "I1: a free-list head does not point to a free record");
            assert!(spec::list_of_lf((s.size * 8) as u32) == l, "I1: a free-list head points to a slot of another size class");
        }
    }
    let mut i = 0;
    while i < NS {
        let s = f.slots[i];
        if s.live && s.body == 2 && s.link != 0 {
            let t = slot_at(f, s.link);
            assert!(t.live && t.body == 2, "I1: a free-list link does not point to a free record");
            assert!(spec::list_of_lf((t.size * 8) as u32) == spec::list_of_lf((s.size * 8) as u32), "I1: a free list links slots of different size classes");
            let mut j = 0;
            while j < NS {
                let u = f.slots[j];
                if j != i && u.live && u.body == 2 {
                    assert!(u.link != s.link, "I1: a free slot is linked from two places");
                }
                j += 1;
            }
            assert!(f.hdr[base + spec::list_of_lf((t.size * 8) as u32)] != s.link, "I1: a free slot is both a list head and linked from another slot");
        }
        i += 1;
    }
}

// ------------------------------------------------------------------------------------ free lists
/// three free LARGE slots in any list order + one used neighbour; first-fit pop
rproof!(r_pop_large3, r_pop_large3_body());
fn r_pop_large3_body() {
    set_key_file(false);
    let mut f = VarFile::model(vp::piece_mgr());
    let sz = [any_large_size(), any_large_size(), any_large_size()];
    let nb_size = any_slot_size();
    let nb_len: u32 = kani::any();
    kani::assume(nb_len <= 1300);
    // list order: a permutation of the three slots
    let p0: usize = kani::any();
    let p1: usize = kani::any();
    let p2: usize = kani::any();
    kani::assume(p0 < 3 && p1 < 3 && p2 < 3 && p0 != p1 && p0 != p2 && p1 != p2);
    let off = [192u64, 192 + sz[0] as u64, 192 + sz[0] as u64 + sz[1] as u64];
    let nb_off = off[2] + sz[2] as u64;
    let nlist: usize = kani::any(); // how many of them are free (the others are used records)
    kani::assume(nlist <= 3);
    let order = [p0, p1, p2];
    let mut k = 0;
    while k < 3 {
        let me = order[k];
        if k < nlist {
            let next = if k + 1 < nlist { off[order[k + 1]] } else { 0 };
            f.slots[me] = free_slot(off[me], sz[me], next);
        } else {
            let l: u32 = kani::any();
            kani::assume(l <= 1300);
            f.slots[me] = used_val(off[me], sz[me], l, kani::any());
        }
        k += 1;
    }
    f.slots[3] = used_val(nb_off, nb_size, nb_len, kani::any());
    f.hdr[head_word(false, 1024)] = if nlist > 0 { off[order[0]] } else { 0 };
    f.end = nb_off + nb_size as u64;
    check_i1(&f, false);
    let before = f.slots;
    let req = any_large_size();
    let got: ValuePieceOffset = ok(f.pop_free_piece_list(ValuePieceSize::new(req)));
    // expected: the first slot in LIST order that is big enough
    let mut want = 0u64;
    let mut wk = 3;
    let mut k = 0;
    while k < 3 {
        if k < nlist && want == 0 && sz[order[k]] >= req {
            want = off[order[k]];
            wk = k;
        }
        k += 1;
    }
    assert!(got.as_value() == want, "pop (large): not the first free slot of the list that is big enough");
    // the remaining list = the old list without that slot, order kept
    let hw = head_word(false, 1024);
    let mut expect_pos = 0usize;
    let mut k = 0;
    while k < 3 {
        if k < nlist && k != wk {
            assert!(list_pos(&f, hw, off[order[k]]) == expect_pos, "pop (large): a slot that stays free lost its place on the list");
            expect_pos += 1;
        }
        k += 1;
    }
    assert!(list_len(&f, hw) == expect_pos, "pop (large): list length wrong after the pop");
    if want != 0 {
        let s = slot_at(&f, want);
        assert!(s.live && s.nf == 1 && s.size * 8 == sz[order[wk]] as u64 && s.zeroed && s.zero_to == s.end(), "pop: the slot handed out does not carry its own size followed by zeros");
        set_slot(&mut f, want, used_val(want, sz[order[wk]], 0, [0; BMAX])); // the caller writes a record into it
    }
    // nothing else moved
    let mut i = 0;
    while i < NS {
        if before[i].off != want {
            let (a, b) = (before[i], f.slots[i]);
            assert!(a.nf == b.nf && a.size == b.size && a.len == b.len && a.body == b.body && a.blen == b.blen && (a.body != 1 || (a.bytes[0] == b.bytes[0] && a.bytes[1] == b.bytes[1] && a.bytes[2] == b.bytes[2])), "pop: another slot was modified");
            if a.body == 2 && !(wk < 3 && wk > 0 && a.off == off[order[wk - 1]]) {
                assert!(a.link == b.link, "pop: link of an unrelated free slot changed");
            }
        }
        i += 1;
    }
    check_i1(&f, false);
    kani::cover!(wk == 2, "third entry of the list fits (two predecessors too small)");
    kani::cover!(wk == 1, "second entry fits");
    kani::cover!(wk == 0 && nlist == 3, "head fits");
    kani::cover!(want == 0 && nlist == 3, "no entry fits");
    core::mem::forget(f);
}

/// small class: pop takes the head of exactly that class' list
rproof!(r_pop_small, r_pop_small_body());
fn r_pop_small_body() {
    set_key_file(true);
    let mut f = VarFile::model(kp::piece_mgr());
    let ci: usize = kani::any();
    kani::assume(ci < 15);
    let c = spec::CLASSES[ci];
    let other = any_slot_size();
    kani::assume(other != c);
    let n: usize = kani::any();
    kani::assume(n <= 2);
    let o0 = 192u64;
    let o1 = o0 + c as u64;
    let o2 = o1 + c as u64;
    // two slots of class c (n of them free, list order = solver's choice), one free slot of another class
    let first_is_0: bool = kani::any();
    let (h, t) = if first_is_0 { (o0, o1) } else { (o1, o0) };
    let mk = |off: u64, on: bool, next: u64| if on { free_slot(off, c, next) } else { used_key(off, c, 0, [0; BMAX], 0, 0) };
    f.slots[0] = mk(o0, n == 2 || (n == 1 && first_is_0), if n == 2 && first_is_0 { o1 } else { 0 });
    f.slots[1] = mk(o1, n == 2 || (n == 1 && !first_is_0), if n == 2 && !first_is_0 { o0 } else { 0 });
    f.slots[2] = free_slot(o2, other, 0);
    f.hdr[head_word(true, c)] = if n == 0 { 0 } else { h };
    f.hdr[head_word(true, other)] = o2;
    f.end = o2 + other as u64;
    check_i1(&f, true);
    let got: KeyPieceOffset = ok(f.pop_free_piece_list(KeyPieceSize::new(c)));
    assert!(got.as_value() == if n == 0 { 0 } else { h }, "pop (small): not the head of the list of exactly that class");
    assert!(f.hdr[head_word(true, c)] == if n == 2 { t } else { 0 }, "pop (small): list head not advanced to the next free slot");
    assert!(f.hdr[head_word(true, other)] == o2 && f.slots[2].link == 0 && f.slots[2].body == 2, "pop (small): the list of another class was touched");
    if n > 0 {
        let s = slot_at(&f, h);
        assert!(s.live && s.nf == 1 && s.size * 8 == c as u64 && s.zeroed && s.zero_to == s.end(), "pop: the slot handed out does not carry its own size followed by zeros");
        set_slot(&mut f, h, used_key(h, c, 0, [0; BMAX], 0, 0));
    }
    check_i1(&f, true);
    kani::cover!(n == 2, "two free slots of the class");
    core::mem::forget(f);
}

/// push: the slot becomes the head of the list of ITS size, linked to the old head, completely
/// rewritten as a free record; everything else untouched
rproof!(r_push, r_push_body());
fn r_push_body() {
    set_key_file(false);
    let mut f = VarFile::model(vp::piece_mgr());
    let s0 = any_slot_size();
    let s1 = any_slot_size();
    let s2 = any_slot_size();
    let l0: u32 = kani::any();
    let l2: u32 = kani::any();
    kani::assume(l0 <= 1300 && l2 <= 1300);
    let o0 = 192u64;
    let o1 = o0 + s0 as u64;
    let o2 = o1 + s1 as u64;
    f.slots[0] = used_val(o0, s0, l0, kani::any());
    f.slots[1] = free_slot(o1, s1, 0);
    f.slots[2] = used_val(o2, s2, l2, kani::any());
    f.hdr[head_word(false, s1)] = o1;
    f.end = o2 + s2 as u64;
    check_i1(&f, false);
    let which: bool = kani::any();
    let (po, ps) = if which { (o0, s0) } else { (o2, s2) };
    let old_head = f.hdr[head_word(false, ps)];
    let keep = if which { f.slots[2] } else { f.slots[0] };
    ok(f.push_free_piece_list(ValuePieceOffset::new(po), ValuePieceSize::new(ps)));
    assert!(f.hdr[head_word(false, ps)] == po, "push: slot is not the head of the list of its size class");
    let s = slot_at(&f, po);
    assert!(s.live && s.body == 2 && s.link == old_head, "push: free record is not linked to the previous head");
    assert!(s.size * 8 == ps as u64 && s.len == 0, "push: free record does not carry the slot's size and a zero length");
    let k = if which { f.slots[2] } else { f.slots[0] };
    assert!(k.nf == keep.nf && k.len == keep.len && k.size == keep.size && k.bytes[0] == keep.bytes[0], "push: another record was modified");
    check_i1(&f, false);
    kani::cover!(spec::list_of_lf(ps) == spec::list_of_lf(s1), "pushed onto a non-empty list");
    kani::cover!(ps >= 1024 && s1 >= 1024 && ps != s1, "large slots of different sizes share one list");
    core::mem::forget(f);
}

/// count_of_free_piece_list = number of slots on that list (C17)
rproof!(r_count, r_count_body());
fn r_count_body() {
    set_key_file(false);
    let mut f = VarFile::model(vp::piece_mgr());
    let sz = [any_slot_size(), any_slot_size(), any_slot_size()];
    let fr: [bool; 3] = kani::any();
    let off = [192u64, 192 + sz[0] as u64, 192 + sz[0] as u64 + sz[1] as u64];
    f.end = off[2] + sz[2] as u64;
    // push order = slot order; lists are built by linking each free slot in front of its list
    let mut i = 0;
    while i < 3 {
        if fr[i] {
            let hw = head_word(false, sz[i]);
            f.slots[i] = free_slot(off[i], sz[i], f.hdr[hw]);
            f.hdr[hw] = off[i];
        } else {
            let l: u32 = kani::any();
            kani::assume(l <= 1300);
            f.slots[i] = used_val(off[i], sz[i], l, kani::any());
        }
        i += 1;
    }
    check_i1(&f, false);
    f.ro = true;
    let q = any_slot_size();
    let got = ok(f.count_of_free_piece_list(ValuePieceSize::new(q)));
    let mut e = 0u64;
    let mut i = 0;
    while i < 3 {
        if fr[i] && spec::list_of_lf(sz[i]) == spec::list_of_lf(q) {
            e += 1;
        }
        i += 1;
    }
    assert!(got == e, "count_of_free_piece_list differs from the number of slots on that free list");
    f.ro = false;
    kani::cover!(e == 3, "three slots on one list");
    kani::cover!(e == 2 && q >= 1024, "two large slots");
    core::mem::forget(f);
}

// ------------------------------------------------------------------------------------ value records
fn sized_vec(len: usize, b: &[u8; BMAX]) -> Vec<u8> {
    let mut v: Vec<u8> = vec![0u8; RCAP];
    let mut i = 0;
    while i < BMAX {
        v[i] = b[i];
        i += 1;
    }
    kani::assume(len <= RCAP);
    v.truncate(len);
    v
}
/// image: record A (used, the one rewritten / or a used bystander when a new record is added),
/// slot B (free or used), record C (used neighbour at the end).  One real write_piece.
fn val_write(is_new: bool, b_is_free: bool, with_c: bool) {
    val_write_sz(is_new, b_is_free, with_c, false)
}
/// `small`: slots of the 10 smallest classes (16..256 bytes) and lengths up to 250 only - every
/// class boundary and the 1 -> 2 byte length encoding at 128 are crossed; the large class and
/// first fit are left to r_pop_large3 and the unrestricted variants
fn val_write_sz(is_new: bool, b_is_free: bool, with_c: bool, small: bool) {
    set_key_file(false);
    let mut f = VarFile::model(vp::piece_mgr());
    let lmax: u32 = if small { 250 } else { 1300 };
    let pick = || {
        if small {
            let i: usize = kani::any();
            kani::assume(i < 10);
            spec::CLASSES[i]
        } else {
            any_slot_size()
        }
    };
    let sa = pick();
    let sb = pick();
    let sc = pick();
    let la: u32 = kani::any();
    let lc: u32 = kani::any();
    kani::assume(la <= lmax && lc <= lmax);
    let oa = 192u64;
    let ob = oa + sa as u64;
    let oc = ob + sb as u64;
    let e0 = if with_c { oc + sc as u64 } else { oc };
    f.slots[0] = used_val(oa, sa, la, kani::any());
    let b_free: bool = b_is_free;
    f.slots[1] = if b_free {
        free_slot(ob, sb, 0)
    } else {
        let l: u32 = kani::any();
        kani::assume(l <= lmax);
        used_val(ob, sb, l, kani::any())
    };
    if with_c {
        f.slots[2] = used_val(oc, sc, lc, kani::any());
    }
    if b_free {
        f.hdr[head_word(false, sb)] = ob;
    }
    f.end = e0;
    if !small {
        // (sanity check of the constructed image; the quick variants leave it to r_image_twin)
        check_i1(&f, false);
    }
    let keep_c = f.slots[2];
    let keep_b = f.slots[1];
    let keep_a = f.slots[0];
    let l1: usize = kani::any();
    kani::assume(l1 <= lmax as usize);
    let nb: [u8; BMAX] = kani::any();
    let vf = vp::val_file(f);
    let piece = ValuePiece { offset: ValuePieceOffset::new(if is_new { 0 } else { oa }), size: Default::default(), value: sized_vec(l1, &nb) };
    let out = ok(if is_new {
        let r = vf.add_value_piece(&piece.value);
        core::mem::forget(piece);
        r
    } else {
        vf.write_piece(piece)
    });
    let off = out.offset.as_value();
    let need = spec::val_slot_chosen(l1 as u64);
    vp::with_var_file(&vf, |f| {
        check_i1(f, false);
        // where the record went: in place iff it fits the old slot; otherwise a free slot of the
        // class (small: exact class, large: first fit) if there is one; otherwise the end of the file
        let fits_b = b_free && ((need < 1024 && sb == need) || (need >= 1024 && sb >= need));
        if !is_new && need <= sa {
            assert!(off == oa && f.end == e0, "rewrite that fits its slot must stay in place");
        } else if fits_b {
            assert!(off == ob && f.end == e0, "a suitable free slot exists: it must be reused and the file must not grow");
        } else {
            assert!(off == e0 && f.end == e0 + need as u64, "new record must be appended with exactly the slot size of the sizing rule");
        }
        // the record is what was asked for, in the documented field order
        let s = slot_at(f, off);
        assert!(s.live, "returned offset holds no slot");
        assert!(s.body == 1 && s.len == l1 as u64 && s.blen == l1 as u64, "written value record: length field / payload length");
        assert!((l1 < 1 || s.bytes[0] == nb[0]) && (l1 < 2 || s.bytes[1] == nb[1]) && (l1 < 3 || s.bytes[2] == nb[2]), "written value record: payload bytes");
        assert!(out.size.as_value() as u64 == s.size * 8, "returned piece size differs from the slot size on file");
        // the old slot of a moved record is free now
        if !is_new && off != oa {
            let o = slot_at(f, oa);
            assert!(o.live && o.body == 2 && o.size * 8 == sa as u64, "the old slot of a moved record was not put on its free list with its own size");
        }
        // bystanders untouched
        if with_c {
            let c = slot_at(f, oc);
            assert!(c.nf == keep_c.nf && c.size == keep_c.size && c.len == keep_c.len && c.blen == keep_c.blen && c.bytes[0] == keep_c.bytes[0] && c.bytes[1] == keep_c.bytes[1] && c.bytes[2] == keep_c.bytes[2], "neighbour record modified");
        }
        if is_new {
            let a = slot_at(f, oa);
            assert!(a.nf == keep_a.nf && a.size == keep_a.size && a.len == keep_a.len && a.bytes[0] == keep_a.bytes[0], "bystander record modified");
        }
        if off != ob {
            let b = slot_at(f, ob);
            assert!(b.body == keep_b.body && b.size == keep_b.size && b.len == keep_b.len && b.blen == keep_b.blen && b.bytes[0] == keep_b.bytes[0] && b.bytes[1] == keep_b.bytes[1] && b.bytes[2] == keep_b.bytes[2], "the slot right behind the record was modified");
        }
    });
    // read back through the real readers
    if !small {
        let back = ok(vf.read_piece_only_value(out.offset));
        assert!(back.len() == l1, "value read back with another length");
        assert!((l1 < 1 || back[0] == nb[0]) && (l1 < 2 || back[1] == nb[1]) && (l1 < 3 || back[2] == nb[2]), "value read back with other bytes");
        core::mem::forget(back);
    }
    let rl = ok(vf.read_piece_only_value_length(out.offset));
    assert!(rl.as_value() as usize == l1, "value length read back differs");
    kani::cover!(!is_new && off == oa, "in place");
    kani::cover!(off == ob && need >= 1024 && sb > need, "bigger large free slot reused (keeps its own size)");
    kani::cover!(off == ob && need < 1024, "small free slot reused");
    kani::cover!(off == e0, "appended");
    kani::cover!(!is_new && off != oa && spec::list_of_lf(sa) == spec::list_of_lf(sb) && b_free, "old slot pushed onto a non-empty list");
    core::mem::forget(out);
    core::mem::forget(vf);
}
// (one harness per shape of slot B: the two halves run in parallel)
rproof!(r_val_rewrite_bfree, val_write(false, true, false));
rproof!(r_val_rewrite_bused, val_write(false, false, false));
rproof!(r_val_new_bfree, val_write(true, true, false));
rproof!(r_val_new_bused, val_write(true, false, false));
rproof_small!(r_val_rewrite_small_bfree, val_write_sz(false, true, false, true));
rproof_small!(r_val_rewrite_small_bused, val_write_sz(false, false, false, true));
rproof_small!(r_val_new_small_bfree, val_write_sz(true, true, false, true));
// the same with a third, used slot C behind B (thorough tier)
rproof!(r_val_rewrite_bfree_c, val_write(false, true, true));
rproof!(r_val_rewrite_bused_c, val_write(false, false, true));
rproof!(r_val_new_bfree_c, val_write(true, true, true));

/// delete_piece: the slot goes onto the free list of its own size
rproof!(r_val_delete, r_val_delete_body());
fn r_val_delete_body() {
    set_key_file(false);
    let mut f = VarFile::model(vp::piece_mgr());
    let sa = any_slot_size();
    let sb = any_slot_size();
    let la: u32 = kani::any();
    kani::assume(la <= 1300);
    let oa = 192u64;
    let ob = oa + sa as u64;
    f.slots[0] = used_val(oa, sa, la, kani::any());
    f.slots[1] = free_slot(ob, sb, 0);
    f.hdr[head_word(false, sb)] = ob;
    f.end = ob + sb as u64;
    check_i1(&f, false);
    let vf = vp::val_file(f);
    let r = ok(vf.delete_piece(ValuePieceOffset::new(oa)));
    assert!(r.as_value() == sa);
    vp::with_var_file(&vf, |f| {
        check_i1(f, false);
        let s = slot_at(f, oa);
        assert!(s.body == 2 && s.size * 8 == sa as u64, "deleted record is not a free record of its own size");
        assert!(list_pos(f, head_word(false, sa), oa) == 0, "deleted record is not the head of its free list");
        assert!(f.end == ob + sb as u64, "delete changed the file length");
    });
    core::mem::forget(vf);
}

/// the sequential slot walk visits every slot exactly once, in address order, and terminates
rproof!(r_val_walk, r_val_walk_body());
fn r_val_walk_body() {
    set_key_file(false);
    let mut f = VarFile::model(vp::piece_mgr());
    let n: usize = kani::any();
    kani::assume(n <= 3);
    let sz = [any_slot_size(), any_slot_size(), any_slot_size()];
    let mut o = 192u64;
    let mut offs = [0u64; 3];
    let mut i = 0;
    while i < 3 {
        if i < n {
            offs[i] = o;
            let fr: bool = kani::any();
            if fr {
                let hw = head_word(false, sz[i]);
                f.slots[i] = free_slot(o, sz[i], f.hdr[hw]);
                f.hdr[hw] = o;
            } else {
                let l: u32 = kani::any();
                kani::assume(l <= 1300);
                f.slots[i] = used_val(o, sz[i], l, kani::any());
            }
            o += sz[i] as u64;
        }
        i += 1;
    }
    f.end = o;
    check_i1(&f, false);
    f.ro = true;
    let vf = vp::val_file(f);
    let mut it = vf.piece_offset_iter();
    let mut i = 0;
    while i < 3 {
        if i < n {
            match it.next() {
                Some(x) => assert!(x.as_value() == offs[i], "slot walk: wrong offset (skipped or repeated slot)"),
                None => assert!(false, "slot walk ended early"),
            }
        }
        i += 1;
    }
    assert!(it.next().is_none(), "slot walk yields more slots than the file holds");
    kani::cover!(n == 3, "three slots");
    core::mem::forget(it);
    core::mem::forget(vf);
}

// ------------------------------------------------------------------------------------ key records
fn key_of(len: usize, b: &[u8; BMAX]) -> DbBytes {
    DbBytes::from(sized_vec(len, b))
}
/// one real KeyFile::write_piece / add_key_piece on an image A (used key record), B (free or
/// used), C (used neighbour); symbolic key length, value offset and chain link
fn key_write(is_new: bool, b_is_free: bool) {
    key_write_sz(is_new, b_is_free, false)
}
fn key_write_sz(is_new: bool, b_is_free: bool, small: bool) {
    set_key_file(true);
    let mut f = VarFile::model(kp::piece_mgr());
    let lmax: u32 = if small { 230 } else { 300 };
    let pick = || {
        if small {
            let i: usize = kani::any();
            kani::assume(i < 10);
            spec::CLASSES[i]
        } else {
            any_slot_size()
        }
    };
    let sa = pick();
    let sb = pick();
    let sc = pick();
    let la: u32 = kani::any();
    let lc: u32 = kani::any();
    kani::assume(la <= lmax && lc <= lmax);
    let ka: [u8; BMAX] = kani::any();
    let aligned = || {
        let o: u64 = kani::any();
        kani::assume(o % 8 == 0 && o < (1u64 << 56));
        o
    };
    let (va, na, vc, nc) = (aligned(), aligned(), aligned(), aligned());
    let oa = 192u64;
    let ob = oa + sa as u64;
    let oc = ob + sb as u64;
    let e0 = oc + sc as u64;
    f.slots[0] = used_key(oa, sa, la, ka, va, na);
    let b_free: bool = b_is_free;
    f.slots[1] = if b_free { free_slot(ob, sb, 0) } else { used_key(ob, sb, 0, [0; BMAX], 0, 0) };
    f.slots[2] = used_key(oc, sc, lc, kani::any(), vc, nc);
    if b_free {
        f.hdr[head_word(true, sb)] = ob;
    }
    f.end = e0;
    check_i1(&f, true);
    let keep_c = f.slots[2];
    // the record written: for a rewrite the key is the stored one (the crate rewrites what it read)
    let (kl, kb) = if is_new {
        let l: usize = kani::any();
        kani::assume(l <= lmax as usize);
        (l, kani::any::<[u8; BMAX]>())
    } else {
        (la as usize, ka)
    };
    let (nv, nn) = (aligned(), aligned());
    let kfile = kp::key_file::<DbBytes>(f);
    let key = key_of(kl, &kb);
    let out = ok(if is_new {
        kfile.add_key_piece(&key, ValuePieceOffset::new(nv), KeyPieceOffset::new(nn))
    } else {
        kfile.write_piece(KeyPiece::with(KeyPieceOffset::new(oa), Default::default(), key.clone(), ValuePieceOffset::new(nv), KeyPieceOffset::new(nn)))
    });
    let off = out.offset.as_value();
    let need = spec::key_slot_chosen(kl as u64, nv, nn);
    kp::with_var_file(&kfile, |f| {
        check_i1(f, true);
        let fits_b = b_free && ((need < 1024 && sb == need) || (need >= 1024 && sb >= need));
        if !is_new && need <= sa {
            assert!(off == oa && f.end == e0, "rewrite that fits its slot must stay in place");
        } else if fits_b {
            assert!(off == ob && f.end == e0, "a suitable free slot exists: it must be reused and the file must not grow");
        } else {
            assert!(off == e0 && f.end == e0 + need as u64, "new record must be appended with exactly the slot size of the sizing rule");
        }
        // documented field sequence: size/8, key length, key bytes, value offset/8, chain link/8
        let s = slot_at(f, off);
        assert!(s.live, "returned offset holds no slot");
        assert!(s.nf == 5 && s.body == 1 && s.len == kl as u64 && s.blen == kl as u64, "key record: length field / key bytes");
        assert!((kl < 1 || s.bytes[0] == kb[0]) && (kl < 2 || s.bytes[1] == kb[1]) && (kl < 3 || s.bytes[2] == kb[2]), "key record: key bytes");
        assert!(s.o1 == nv / 8, "key record: first offset field is not the value offset / 8");
        assert!(s.o2 == nn / 8, "key record: second offset field is not the chain link / 8");
        assert!(out.size.as_value() as u64 == s.size * 8, "returned piece size differs from the slot size on file");
        if !is_new && off != oa {
            let o = slot_at(f, oa);
            assert!(o.live && o.body == 2 && o.size * 8 == sa as u64, "the old slot of a moved record was not put on its free list with its own size");
        }
        let c = slot_at(f, oc);
        assert!(c.nf == keep_c.nf && c.size == keep_c.size && c.len == keep_c.len && c.o1 == keep_c.o1 && c.o2 == keep_c.o2 && c.bytes[0] == keep_c.bytes[0], "neighbour record modified");
    });
    // the real readers give back what was stored
    let p = ok(kfile.read_piece(out.offset));
    assert!(p.value_offset.as_value() == nv && p.bucket_next_offset.as_value() == nn, "key record read back with other offsets");
    let pk = p.key.as_bytes();
    assert!(pk.len() == kl && (kl < 1 || pk[0] == kb[0]) && (kl < 2 || pk[1] == kb[1]) && (kl < 3 || pk[2] == kb[2]), "key read back differs");
    assert!(ok(kfile.read_piece_only_value_offset(out.offset)).as_value() == nv);
    assert!(ok(kfile.read_piece_only_key_length(out.offset)).as_value() as usize == kl);
    kani::cover!(!is_new && off == oa, "in place");
    kani::cover!(!is_new && off != oa, "moved: offsets needed a bigger slot");
    kani::cover!(off == ob, "free slot reused");
    kani::cover!(off == e0, "appended");
    core::mem::forget(p);
    core::mem::forget(key);
    core::mem::forget(out);
    core::mem::forget(kfile);
}
rproof_small!(r_key_rewrite_small_bfree, key_write_sz(false, true, true));
rproof_small!(r_key_new_small_bfree, key_write_sz(true, true, true));
rproof!(r_key_rewrite_bfree, key_write(false, true));
rproof!(r_key_rewrite_bused, key_write(false, false));
rproof!(r_key_new_bfree, key_write(true, true));
rproof!(r_key_new_bused, key_write(true, false));




/// key file: delete_piece and the slot walk (same code paths as the value file through the
/// generic PieceA / push_free_piece_list, instantiated for key records)
rproof!(r_key_delete_walk, r_key_delete_walk_body());
fn r_key_delete_walk_body() {
    set_key_file(true);
    let mut f = VarFile::model(kp::piece_mgr());
    let sa = any_slot_size();
    let sb = any_slot_size();
    let la: u32 = kani::any();
    let lb: u32 = kani::any();
    kani::assume(la <= 300 && lb <= 300);
    let oa = 192u64;
    let ob = oa + sa as u64;
    let al = || {
        let o: u64 = kani::any();
        kani::assume(o % 8 == 0 && o < (1u64 << 56));
        o
    };
    f.slots[0] = used_key(oa, sa, la, kani::any(), al(), al());
    f.slots[1] = used_key(ob, sb, lb, kani::any(), al(), al());
    f.end = ob + sb as u64;
    check_i1(&f, true);
    let keep_b = f.slots[1];
    let kfile = kp::key_file::<DbBytes>(f);
    let r = ok(kfile.delete_piece(KeyPieceOffset::new(oa)));
    assert!(r.as_value() == sa);
    kp::with_var_file(&kfile, |f| {
        check_i1(f, true);
        let s = slot_at(f, oa);
        assert!(s.live && s.body == 2 && s.size * 8 == sa as u64, "deleted key record is not a free record of its own size");
        assert!(list_pos(f, head_word(true, sa), oa) == 0, "deleted key record is not the head of its free list");
        let b = slot_at(f, ob);
        assert!(b.nf == keep_b.nf && b.len == keep_b.len && b.o1 == keep_b.o1 && b.o2 == keep_b.o2, "neighbour key record modified by a delete");
        f.ro = true;
    });
    // the slot walk sees the freed slot (length 0) and the live one, once each, then ends
    let mut it = kfile.piece_offset_iter();
    match it.next() {
        Some(x) => assert!(x.as_value() == oa),
        None => assert!(false, "slot walk ended early"),
    }
    assert!(ok(kfile.read_piece_only_key_length(KeyPieceOffset::new(oa))).as_value() == 0, "a freed key slot must read as key length 0");
    match it.next() {
        Some(x) => assert!(x.as_value() == ob),
        None => assert!(false, "slot walk ended early"),
    }
    assert!(ok(kfile.read_piece_only_key_length(KeyPieceOffset::new(ob))).as_value() == lb);
    assert!(ok(kfile.read_piece_only_size(KeyPieceOffset::new(ob))).as_value() == sb);
    assert!(it.next().is_none(), "slot walk yields more slots than the file holds");
    core::mem::forget(it);
    core::mem::forget(kfile);
}
