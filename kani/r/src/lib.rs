//! Layer R: the real record code of abyssiniandb - key.rs, val.rs, piece.rs, semtype.rs compiled
//! verbatim from /repo via `#[path]` - executed symbolically over the slot-structured model of
//! `vfile::VarFile` (src/vfile_model.rs).
#![allow(dead_code, unused_imports, unused_variables)]
extern crate alloc;

#[path = "../../../spec/format.rs"]
pub mod spec;

pub use abyssiniandb::{DbMapKeyType, HashValue};
pub mod filedb {
    pub use abyssiniandb::filedb::{FileBufSizeParam, FileDbParams, HashBucketsParam};
    pub mod inner {
        #[path = "/repo/src/filedb/inner/semtype.rs"]
        pub mod semtype;
        #[path = "vfile_model.rs"]
        pub mod vfile;
        #[path = "/repo/src/filedb/inner/piece.rs"]
        pub mod piece;
        #[path = "/repo/src/filedb/inner/val.rs"]
        pub mod val;
        #[path = "/repo/src/filedb/inner/key.rs"]
        pub mod key;
    }
}

#[cfg(kani)]
mod proofs;
