//! Frozen format specification of abyssiniandb 0.1.4 (default feature set:
//! vf_vu64 + htx_bitmap), written from the layout tables in key.rs / val.rs / htx.rs and the
//! README of vu64 at the pinned commit.  It shares no code with the crate.  Harness crates
//! include it with `#[path]`; the native validation (bin/validate spec) decodes files written
//! by the real crate with it.
#![allow(dead_code)]

pub const SIG_HTX: [u8; 8] = *b"abysdbH\0";
pub const SIG_KEY: [u8; 8] = *b"abysdbK\0";
pub const SIG_VAL: [u8; 8] = *b"abysdbV\0";

pub const TSIG_STRING: [u8; 8] = *b"string\0\0";
pub const TSIG_BYTES: [u8; 8] = *b"bytes\0\0\0";
pub const TSIG_U64: [u8; 8] = *b"u64_le\0\0";
pub const TSIG_I64: [u8; 8] = *b"i64_le\0\0";
/// as released: identical to TSIG_U64 (finding D5)
pub const TSIG_VU64: [u8; 8] = *b"u64_le\0\0";

pub const HTX_HEADER_SZ: u64 = 128;
pub const HTX_OFF_BUCKETS: u64 = 16;
pub const HTX_OFF_COUNT: u64 = 24;
pub const DAT_HEADER_SZ: u64 = 192;
/// first free-list head in the key file header; 16 heads of 8 bytes
pub const KEY_FREE_HEAD0: u64 = 48;
/// first free-list head in the value file header; 16 heads of 8 bytes
pub const VAL_FREE_HEAD0: u64 = 32;
pub const DEFAULT_BUCKETS: u64 = 16 * 1024 * 1024;

/// the 16 slot size classes (both files); the last one is the threshold of the shared
/// "large" list: every slot >= 1024 bytes lives on list 15.
pub const CLASSES: [u32; 16] = [
    16, 24, 32, 48, 64, 80, 96, 112, 128, 256, 384, 512, 640, 768, 896, 1024,
];

/// length of the table file for `n` buckets (header + 8n table + n/8 bitmap)
pub const fn htx_file_len(n: u64) -> u64 {
    HTX_HEADER_SZ + 8 * n + n / 8
}
pub const fn htx_bucket_pos(idx: u64) -> u64 {
    HTX_HEADER_SZ + 8 * idx
}
pub const fn htx_bitmap_pos(n: u64, idx: u64) -> u64 {
    HTX_HEADER_SZ + 8 * n + idx / 8
}

/// slot size for an encoded record that needs `need` bytes (need >= 1); loop-free on purpose
pub fn slot_for(need: u32) -> u32 {
    if need <= 16 {
        16
    } else if need <= 24 {
        24
    } else if need <= 32 {
        32
    } else if need <= 48 {
        48
    } else if need <= 64 {
        64
    } else if need <= 80 {
        80
    } else if need <= 96 {
        96
    } else if need <= 112 {
        112
    } else if need <= 128 {
        128
    } else if need <= 256 {
        256
    } else if need <= 384 {
        384
    } else if need <= 512 {
        512
    } else if need <= 640 {
        640
    } else if need <= 768 {
        768
    } else if need <= 896 {
        896
    } else {
        // large: next multiple of 128 strictly above `need`
        (need / 128 + 1) * 128
    }
}
/// index of the free list a slot of `size` bytes belongs to
pub fn list_of(size: u32) -> usize {
    let mut i = 0;
    while i < 15 {
        if size == CLASSES[i] {
            return i;
        }
        i += 1;
    }
    15
}
/// loop-free variants (constant-bound loops cost every CBMC harness an unwind bound of 16)
pub fn list_of_lf(size: u32) -> usize {
    if size >= 1024 {
        15
    } else if size == 16 {
        0
    } else if size == 24 {
        1
    } else if size == 32 {
        2
    } else if size == 48 {
        3
    } else if size == 64 {
        4
    } else if size == 80 {
        5
    } else if size == 96 {
        6
    } else if size == 112 {
        7
    } else if size == 128 {
        8
    } else if size == 256 {
        9
    } else if size == 384 {
        10
    } else if size == 512 {
        11
    } else if size == 640 {
        12
    } else if size == 768 {
        13
    } else if size == 896 {
        14
    } else {
        15
    }
}
pub fn is_slot_size_lf(size: u32) -> bool {
    (size >= 1024 && size % 128 == 0) || size == 16 || size == 24 || size == 32 || size == 48 || size == 64 || size == 80 || size == 96 || size == 112 || size == 128 || size == 256 || size == 384 || size == 512 || size == 640 || size == 768 || size == 896
}
pub fn is_slot_size(size: u32) -> bool {
    let mut i = 0;
    while i < 15 {
        if size == CLASSES[i] {
            return true;
        }
        i += 1;
    }
    size >= 1024 && size % 128 == 0
}

/// vu64: number of bytes of the encoding of `v`
pub fn vu64_len(v: u64) -> u64 {
    if v < (1 << 7) {
        1
    } else if v < (1 << 14) {
        2
    } else if v < (1 << 21) {
        3
    } else if v < (1 << 28) {
        4
    } else if v < (1 << 35) {
        5
    } else if v < (1 << 42) {
        6
    } else if v < (1 << 49) {
        7
    } else if v < (1 << 56) {
        8
    } else {
        9
    }
}
/// vu64 encoding: (L-1) one bits, a zero bit, the low (8-L) bits of v; then v >> (8-L)
/// little endian in L-1 bytes.  L = 8: 0xFE + 7 bytes LE; L = 9: 0xFF + 8 bytes LE.
pub fn vu64_encode(v: u64) -> ([u8; 9], usize) {
    let l = vu64_len(v) as usize;
    let mut b = [0u8; 9];
    if l == 1 {
        b[0] = v as u8;
    } else if l <= 7 {
        let low_bits = 8 - l as u32;
        let prefix: u8 = (0xFFu16 << (9 - l as u32)) as u8;
        b[0] = prefix | ((v & ((1u64 << low_bits) - 1)) as u8);
        let rest = v >> low_bits;
        let mut i = 1;
        while i < l {
            b[i] = (rest >> (8 * (i - 1))) as u8;
            i += 1;
        }
    } else {
        b[0] = if l == 8 { 0xFE } else { 0xFF };
        let mut i = 1;
        while i < l {
            b[i] = (v >> (8 * (i - 1))) as u8;
            i += 1;
        }
    }
    (b, l)
}
/// decode a vu64 at the start of `b`; returns (value, bytes consumed)
pub fn vu64_decode(b: &[u8]) -> Option<(u64, usize)> {
    if b.is_empty() {
        return None;
    }
    let l = (b[0].leading_ones() + 1) as usize;
    if b.len() < l {
        return None;
    }
    let mut v: u64;
    if l == 1 {
        v = b[0] as u64;
    } else if l <= 7 {
        let low_bits = 8 - l as u32;
        v = (b[0] as u64) & ((1u64 << low_bits) - 1);
        let mut i = 1;
        while i < l {
            v |= (b[i] as u64) << (low_bits + 8 * (i as u32 - 1));
            i += 1;
        }
    } else {
        v = 0;
        let mut i = 1;
        while i < l {
            v |= (b[i] as u64) << (8 * (i as u32 - 1));
            i += 1;
        }
    }
    Some((v, l))
}

fn mix(a: u64) -> u64 {
    let mut x = a;
    x ^= x >> 12;
    x ^= x << 25;
    x ^= x >> 27;
    x
}
/// placement hash of a key: the byte length (as the byte-swapped 64-bit word the derived
/// `Hash` of a `Vec<u8>` feeds first), then the key bytes 8 at a time, big endian, a short
/// tail right-aligned; each word is added (wrapping) to the state, then mixed.
pub fn hash_key(key: &[u8]) -> u64 {
    let mut h = mix((key.len() as u64).swap_bytes());
    let mut i = 0;
    while i < key.len() {
        let mut a: u64 = 0;
        let mut j = 0;
        while j < 8 && i + j < key.len() {
            a = (a << 8) | key[i + j] as u64;
            j += 1;
        }
        h = mix(h.wrapping_add(a));
        i += 8;
    }
    h
}
/// the same hash for keys of at most 8 bytes, loop-free (used where keys are short solver variables)
pub fn hash_key_short(key: &[u8; 8], len: usize) -> u64 {
    let h = mix((len as u64).swap_bytes());
    if len == 0 {
        return h;
    }
    let mut a: u64 = 0;
    if len > 0 {
        a = key[0] as u64;
    }
    if len > 1 {
        a = (a << 8) | key[1] as u64;
    }
    if len > 2 {
        a = (a << 8) | key[2] as u64;
    }
    if len > 3 {
        a = (a << 8) | key[3] as u64;
    }
    if len > 4 {
        a = (a << 8) | key[4] as u64;
    }
    if len > 5 {
        a = (a << 8) | key[5] as u64;
    }
    if len > 6 {
        a = (a << 8) | key[6] as u64;
    }
    if len > 7 {
        a = (a << 8) | key[7] as u64;
    }
    mix(h.wrapping_add(a))
}
pub fn bucket_of(key: &[u8], n: u64) -> u64 {
    hash_key(key) % n
}

/// slot size the released code reserves for a NEW or REWRITTEN key record.  Note the released
/// quirk: the two offset fields are *estimated* at vu64_len(offset) although they are written as
/// vu64(offset / 8); the estimate is an upper bound, so records always fit (see K-kslot).
pub fn key_slot_chosen(klen: u64, val_off: u64, next_off: u64) -> u32 {
    let piece_len = vu64_len(klen) + klen + vu64_len(val_off) + vu64_len(next_off);
    let enc = vu64_len((piece_len + 7) / 8);
    slot_for((enc + piece_len) as u32)
}
/// slot size the released code reserves for a NEW or REWRITTEN value record
pub fn val_slot_chosen(vlen: u64) -> u32 {
    let piece_len = vu64_len(vlen) + vlen;
    let enc = vu64_len((piece_len + 7) / 8);
    slot_for((enc + piece_len) as u32)
}

/// bytes a used key record occupies before padding
pub fn key_record_len(slot: u32, klen: u64, val_off: u64, next_off: u64) -> u64 {
    vu64_len(slot as u64 / 8) + vu64_len(klen) + klen + vu64_len(val_off / 8) + vu64_len(next_off / 8)
}
/// bytes a used value record occupies before padding
pub fn val_record_len(slot: u32, vlen: u64) -> u64 {
    vu64_len(slot as u64 / 8) + vu64_len(vlen) + vlen
}
/// bytes a free record occupies before padding: size, zero length byte, 8-byte LE next
pub fn free_record_len(slot: u32) -> u64 {
    vu64_len(slot as u64 / 8) + 1 + 8
}
